package ref

import "time"

// FModel is a sequential model of one key behind Failover: the cached entry, the cached failure and the
// documented decision table (FailoverTable). It is stepped in lock-step with the implementation by the
// C03 sequence search, so that table cells are also entered from non-initial states.
type FModel struct {
	SU, FH, MS, FTNeg bool

	TTL, UpdateTTL, MaxStale, FailTTL time.Duration

	Has bool
	Val int // builder invocation index that produced the value
	Exp time.Time

	FHas bool
	FErr int // builder invocation index that produced the error
	FExp time.Time

	Builds int
}

// State classifies the entry at instant now.
func (m *FModel) State(now time.Time) byte {
	switch {
	case !m.Has:
		return 'A'
	case !m.Exp.Before(now):
		return 'F'
	case !m.MS || now.Sub(m.Exp) < m.MaxStale:
		return 'S'
	}

	return 'T'
}

// FailureCached tells whether a failure is cached at instant now.
func (m *FModel) FailureCached(now time.Time) bool {
	return m.FHas && !m.FExp.Before(now)
}

// FStep is what the model expects from one Get.
type FStep struct {
	In        FIn
	Out       FOut
	Ambiguous bool // the documentation allows more than one outcome; the model adopts the observed state afterwards
	OldVal    int
	NewIdx    int // index of the builder invocation, if one happens
}

// Get advances the model by one Get at instant now whose builder (if invoked) succeeds or fails.
func (m *FModel) Get(now time.Time, buildOK bool) FStep { return m.GetWithTTL(now, buildOK, 0) }

// GetWithTTL is Get for a caller whose context carries a TTL (0: none): a value built for it is stored with that
// TTL; the temporary re-store of a stale value and the cached failure keep their own lifetimes.
func (m *FModel) GetWithTTL(now time.Time, buildOK bool, callerTTL time.Duration) FStep {
	in := FIn{State: m.State(now), FailCached: m.FailureCached(now), SU: m.SU, FH: m.FH, MS: m.MS, FTNeg: m.FTNeg, BuildOK: buildOK}
	out := FailoverTable(in)
	st := FStep{In: in, Out: out, Ambiguous: len(out.Results) > 1, OldVal: m.Val, NewIdx: m.Builds}

	eff := in.State
	if eff == 'T' && !m.MS {
		eff = 'S'
	}

	// With a stale value present and a failure cached the documentation does not say whether the stale
	// copy is re-stored with UpdateTTL before the cached failure is returned (the implementation does):
	// the model adopts the observed entry state after such a step.
	if in.FailCached && (eff == 'S' || eff == 'T') {
		st.Ambiguous = true
	}

	// the stale value is re-stored with UpdateTTL before the builder is invoked (README bullet 3)
	if eff == 'S' && out.Builds == 1 {
		m.Exp = now.Add(m.UpdateTTL)
	}

	if out.Builds == 1 {
		m.Builds++

		if buildOK {
			ttl := m.TTL
			if callerTTL != 0 {
				ttl = callerTTL
			}

			m.Has, m.Val, m.Exp = true, st.NewIdx, now.Add(ttl)
			// a successful build does not clear the failure cache; it simply is not consulted while the value is fresh
		} else if !m.FTNeg {
			m.FHas, m.FErr, m.FExp = true, st.NewIdx, now.Add(m.FailTTL)
		}
	}

	return st
}

// ExpireAll marks the entry expired at now.
func (m *FModel) ExpireAll(now time.Time) {
	if m.Has {
		m.Exp = now
	}
}
