// Package ref holds the reference models: deliberately boring Go written from the documentation,
// independent of the implementation's structure.
package ref

import (
	"fmt"
	"sort"
	"strings"
	"time"
)

// Status of a model read.
type Status int

// Read outcomes.
const (
	Hit Status = iota
	NotFound
	Expired
)

func (s Status) String() string { return [...]string{"hit", "not-found", "expired"}[s] }

// MEntry is a model entry. E is the expiry instant in unix nanoseconds, 0 = never expires.
type MEntry struct {
	V interface{}
	E int64
}

// ExpMap is a map with per-entry expiry.
type ExpMap struct {
	M map[string]MEntry
	// DefaultTTL is the configured TimeToLive; <0 means unlimited.
	DefaultTTL time.Duration
	// ExplicitTTLSeen mirrors "an UnlimitedTTL cache received a per-call TTL" (enables the expiry scan, C11).
	ExplicitTTLSeen bool
}

// NewExpMap creates a model.
func NewExpMap(defaultTTL time.Duration) *ExpMap {
	return &ExpMap{M: map[string]MEntry{}, DefaultTTL: defaultTTL}
}

// Write stores v under k at instant now with the per-call TTL (0 = use default).
func (m *ExpMap) Write(k string, v interface{}, ctxTTL time.Duration, now time.Time) {
	ttl := ctxTTL
	if ttl == 0 {
		if m.DefaultTTL < 0 {
			m.M[k] = MEntry{V: v}
			return
		}

		ttl = m.DefaultTTL
	} else if m.DefaultTTL < 0 {
		m.ExplicitTTLSeen = true
	}

	m.M[k] = MEntry{V: v, E: now.Add(ttl).UnixNano()}
}

// Read looks k up at instant now. At the exact expiry instant the documentation does not say whether
// the entry is still fresh; AtEdge is set so that callers accept either answer.
func (m *ExpMap) Read(k string, now time.Time, skip bool) (e MEntry, st Status, atEdge bool) {
	if skip {
		return MEntry{}, NotFound, false
	}

	e, ok := m.M[k]
	if !ok {
		return MEntry{}, NotFound, false
	}

	if e.E != 0 && e.E <= now.UnixNano() {
		return e, Expired, e.E == now.UnixNano()
	}

	return e, Hit, false
}

// Delete removes k and reports whether it existed.
func (m *ExpMap) Delete(k string) bool {
	_, ok := m.M[k]
	delete(m.M, k)

	return ok
}

// ExpireAll marks every entry (also never-expiring ones) as expired at now. Returns the number of entries.
func (m *ExpMap) ExpireAll(now time.Time) int {
	for k, e := range m.M {
		e.E = now.UnixNano()
		m.M[k] = e
	}

	return len(m.M)
}

// DeleteAll empties the map and returns the number of removed entries.
func (m *ExpMap) DeleteAll() int {
	n := len(m.M)
	m.M = map[string]MEntry{}

	return n
}

// Cleanup removes exactly the entries whose expiry lies more than dea in the past.
func (m *ExpMap) Cleanup(now time.Time, dea time.Duration) []string {
	var removed []string

	b := now.Add(-dea).UnixNano()
	for k, e := range m.M {
		if e.E != 0 && e.E < b {
			removed = append(removed, k)
			delete(m.M, k)
		}
	}

	sort.Strings(removed)

	return removed
}

// Keys returns the sorted key set.
func (m *ExpMap) Keys() []string {
	ks := make([]string, 0, len(m.M))
	for k := range m.M {
		ks = append(ks, k)
	}

	sort.Strings(ks)

	return ks
}

// Canon renders the state relative to now (time-translation invariant).
func (m *ExpMap) Canon(now time.Time) string {
	var sb strings.Builder

	for _, k := range m.Keys() {
		e := m.M[k]
		rel := "never"

		if e.E != 0 {
			rel = fmt.Sprint(e.E - now.UnixNano())
		}

		fmt.Fprintf(&sb, "%q=%v@%s;", k, e.V, rel)
	}

	if m.ExplicitTTLSeen {
		sb.WriteString("X")
	}

	return sb.String()
}
