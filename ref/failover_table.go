package ref

// FIn is one cell of the documented decision table of a lone Failover.Get
// (README "Failover Cache" bullets 2-7, FailoverConfig.MaxStaleness / FailHard comments).
type FIn struct {
	State      byte // 'A' absent, 'F' fresh, 'S' expired within MaxStaleness, 'T' expired beyond MaxStaleness
	FailCached bool
	SU         bool // SyncUpdate
	FH         bool // FailHard
	MS         bool // MaxStaleness configured (otherwise every expired value is an acceptable stale value)
	FTNeg      bool // FailedUpdateTTL = -1 (failures are not cached)
	BuildOK    bool
}

// Result kinds.
const (
	RFresh     = "fresh-value"    // the cached value, still fresh
	RStale     = "stale-value"    // the previously cached (expired) value
	RNew       = "built-value"    // the value the builder just returned
	RBuildErr  = "builder-error"  // the error the builder just returned
	RCachedErr = "cached-failure" // the error stored in the failure cache
)

// FOut is what the documentation allows for the cell.
type FOut struct {
	Results     []string // acceptable results (more than one only where the documentation is ambiguous)
	Builds      int      // builder invocations
	Sync        bool     // the build must have finished before Get returned
	Backend     string   // value the backend must hold for the key at quiescence: "pre", "new", "none"
	Failure     string   // failure cache at quiescence: "new" (this build's error), "old", "none", "" unconstrained
	Unreachable bool     // the cell cannot be constructed
	Note        string
}

// FailoverTable returns the documented outcome of the cell.
func FailoverTable(in FIn) FOut {
	st := in.State
	if st == 'T' && !in.MS {
		st = 'S' // without MaxStaleness every expired value may be served
	}

	if in.FailCached && in.FTNeg {
		return FOut{Unreachable: true, Note: "no failure cache exists with FailedUpdateTTL=-1"}
	}

	oldFail := "none"
	if in.FailCached {
		oldFail = "old"
	}

	newFail := "new"
	if in.FTNeg {
		newFail = "none"
	}

	switch st {
	case 'F':
		return FOut{Results: []string{RFresh}, Backend: "pre", Failure: oldFail}
	case 'A':
		if in.FailCached {
			return FOut{Results: []string{RCachedErr}, Backend: "none", Failure: "old"}
		}

		if in.BuildOK {
			return FOut{Results: []string{RNew}, Builds: 1, Sync: true, Backend: "new", Failure: "none"}
		}

		return FOut{Results: []string{RBuildErr}, Builds: 1, Sync: true, Backend: "none", Failure: newFail}
	case 'S':
		if in.FailCached {
			// bullet 6: "fail immediately with same error"; bullet 7: "stale value is served" - both documented.
			res := []string{RCachedErr}
			if !in.FH {
				res = append(res, RStale)
			}

			return FOut{Results: res, Backend: "pre", Failure: "old", Note: "ambiguous: cached failure vs stale value"}
		}

		out := FOut{Builds: 1, Sync: in.SU, Failure: "none"}

		switch {
		case !in.SU:
			out.Results = []string{RStale}
		case in.BuildOK:
			out.Results = []string{RNew}
		case in.FH:
			out.Results = []string{RBuildErr}
		default:
			out.Results = []string{RStale}
		}

		if in.BuildOK {
			out.Backend = "new"
		} else {
			out.Backend = "pre"
			out.Failure = newFail
		}

		return out
	case 'T':
		if in.FailCached {
			res := []string{RCachedErr}
			if !in.FH {
				res = append(res, RStale)
			}

			return FOut{Results: res, Backend: "pre", Failure: "old", Note: "ambiguous: cached failure vs overly stale value"}
		}

		if in.BuildOK {
			return FOut{Results: []string{RNew}, Builds: 1, Sync: true, Backend: "new", Failure: "none"}
		}

		if in.FH {
			return FOut{Results: []string{RBuildErr}, Builds: 1, Sync: true, Backend: "pre", Failure: newFail}
		}

		// README bullet 7 / MaxStaleness comment: served "regardless of MaxStaleness" on update failure.
		return FOut{Results: []string{RStale}, Builds: 1, Sync: true, Backend: "pre", Failure: newFail}
	}

	return FOut{Unreachable: true}
}
