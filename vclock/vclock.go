// Package vclock is the virtual clock and the environment-answer seam (math/rand) of instrumented builds.
// Time only moves through Advance/Set, which are operations chosen by the harnesses.
package vclock

import (
	"time"
	"unsafe"

	"verif/vsched"
)

// Epoch is the instant the virtual clock starts at on Reset.
var Epoch = time.Date(2030, 1, 1, 0, 0, 0, 0, time.UTC)

var (
	offset   time.Duration
	clockRes int64

	// RandGrid is the set of answers rand.Float64 may give when exploration of the answer is on.
	RandGrid = []float64{0.5, 0, 1 - 1.0/(1<<53), 0.25, 0.75}

	// AutoTick makes every Now() advance the clock by 1ns (a write of the clock resource), so that
	// successive readings are distinct as they are in real time (C08).
	AutoTick bool

	randFixed   = 0.5
	randExplore bool
	randCalls   int
)

// SpinCost is the virtual time a failed try-lock costs when AutoTick is on: a caller that loops on a try-lock is
// waiting, and waiting takes time (a time-bounded spin must be able to run out of time).
const SpinCost = 10 * time.Microsecond

func init() {
	vsched.SpinHook = spinHook
}

//go:norace
func spinHook() {
	if AutoTick {
		offset += SpinCost
	}
}

// Res is the scheduler resource standing for the clock.
//
//go:norace
func Res() unsafe.Pointer { return unsafe.Pointer(&clockRes) }

// Reset puts the clock back to Epoch and the rand seam to its defaults.
//
//go:norace
func Reset() {
	offset = 0
	AutoTick = false
	randFixed = 0.5
	randExplore = false
	randCalls = 0
}

// Now is the virtual time.Now.
//
//go:norace
func Now() time.Time {
	if AutoTick {
		vsched.Point(vsched.KClockW, unsafe.Pointer(&clockRes))
		offset++

		return Epoch.Add(offset)
	}

	vsched.Point(vsched.KClockR, unsafe.Pointer(&clockRes))

	return Epoch.Add(offset)
}

// NowQuiet reads the clock without a scheduling point (harness use).
//
//go:norace
func NowQuiet() time.Time { return Epoch.Add(offset) }

// Advance moves the clock forward (a write of the clock resource).
//
//go:norace
func Advance(d time.Duration) {
	vsched.Point(vsched.KClockW, unsafe.Pointer(&clockRes))
	offset += d
}

// SetRand fixes the answer of rand.Float64.
//
//go:norace
func SetRand(f float64) { randFixed = f; randExplore = false }

// ExploreRand makes every rand.Float64 call an environment choice over RandGrid.
//
//go:norace
func ExploreRand(on bool) { randExplore = on }

// RandCalls returns the number of Float64 calls since Reset.
//
//go:norace
func RandCalls() int { return randCalls }

// Float64 is the seam behind math/rand.Float64.
//
//go:norace
func Float64() float64 {
	randCalls++

	if randExplore && vsched.Active() {
		return RandGrid[vsched.Choose(len(RandGrid), 0xfa)]
	}

	return randFixed
}
