#!/usr/bin/env python3
"""Rewrites the last column of the DESIGN.md §3 table from the summary lines of quick runs.

usage: ./update_design_table.py <file with 'Cxx quick: cells=... executions=... transitions=... wall=...s' lines>
"""
import re
import sys


def human(n):
    n = int(n)
    if n >= 1_000_000:
        return f"{n / 1e6:.2g}M" if n < 10_000_000 else f"{n / 1e6:.0f}M"
    if n >= 1000:
        return f"{n / 1e3:.0f}k"
    return str(n)


rows = {}
for line in open(sys.argv[1]):
    m = re.match(r"(C\d\d) quick: cells=(\d+) executions=(\d+) states=(\d+) transitions=(\d+) .* wall=([\d.]+)s", line)
    if m:
        rows[m.group(1)] = m.groups()

unit = {"C07": "transitions", "C10": "cases", "C12": "cases", "C13": "cases", "C14": "cases", "C15": "cases"}
p = "/verif/DESIGN.md"
out = []
for l in open(p).read().split("\n"):
    m = re.match(r"\| (C\d\d) \| ", l)
    if m and m.group(1) in rows and l.rstrip().endswith("s |") and l.count(" | ") >= 3:
        pid, cells, execs, states, trans, wall = rows[m.group(1)]
        u = unit.get(pid, "executions")
        n = trans if u == "transitions" else execs
        w = float(wall)
        ws = "<1 s" if w < 1 else f"{w:.0f} s"
        cols = l.split(" | ")
        cols[-1] = f"{cells} cells, {human(n)} {u}, {ws} |"
        l = " | ".join(cols)
    out.append(l)
open(p, "w").write("\n".join(out))
print("updated", sorted(rows))
