NOT_YET = {}
chk("C01",
    "Exhaustive enumeration of all thread schedules (within a stated preemption bound) of 2-3 concurrent Get callers plus background builds on the real Failover/FailoverOf code, for every cell of the configuration x entry-state x builder-script table; client programs include a forced-refresh (SkipRead) Get, a reused key buffer, a caller that cancels its context while its build is running, builds that take longer than UpdateTTL of virtual time, and one backend call failing at every position; a monitor inside the builder asserts at most one build per key in flight in every explored state.",
    "Trusted: Go toolchain, the shim packages (delegate to std primitives), vinst source rewriting, the harness builder monitor. Code between two synchronisation operations is executed atomically; >3 threads and >bound preemptions are not explored.",
    "stateless model checking of the implementation (controlled scheduler, preemption-bounded DFS over schedules)", "DESIGN.md §C01")

chk("C07",
    "Explicit-state breadth-first search over all operation sequences up to the depth bound on the real backends (ShardedMap, SyncMap, ShardedMapOf) with a reference map-with-expiry stepped in lock-step; every return value and, after every transition, Len and a full Walk are compared; states are deduplicated on a canonical (key,value,relative expiry) form. Keys travel in one caller-owned buffer that is overwritten after every call; cells with one key in every shard cover the batch operations; every path runs as one controlled thread under the scheduler, so a call that never returns (leaked lock) is a detected deadlock.",
    "Trusted: reference model ref.ExpMap, virtual clock shim, vinst rewriting. Sequences longer than the depth bound and key/value alphabets beyond the listed ones are not explored.",
    "explicit-state model checking (BFS over operation histories of the implementation vs reference model)", "DESIGN.md §C07")
chk("C10",
    "Complete enumeration of the TTL configuration grid (magnitude 1ns..100y (150y thorough) x sign x config/context level x composition of the context TTL with other context helpers x history of the key (fresh, already written with another TTL, expired by ExpireAll) x jitter x rand answer incl. both extremes x backend) under a virtual clock; expiry bounds are checked in exact rational arithmetic and reads are probed 1ns before/after the expiry instant.",
    "Trusted: virtual clock and rand seams; monotonicity of Trait.TTL in the rand answer (checked on interior grid points) extends the two extremes to every rand value. TTL magnitudes outside the grid are not explored.",
    "exhaustive enumeration of a finite configuration/environment-answer table on the implementation", "DESIGN.md §C10")
chk("C11",
    "Explicit-state BFS over sequences of writes (default/per-call TTL), clock advances, ExpireAll and cleanup cycles (the janitor's own function through a verif-tagged accessor) for finite and Unlimited TimeToLive x DeleteExpiredAfter x {no limit, never exceeded memory limit, count limit exceeded only by entries the cycle deletes} x 3 backends, compared state-by-state with the reference model's removal rule; plus all schedules of a cleanup cycle next to writes and of DeleteAll next to a write of an expired entry, and the constructor-started janitor goroutine itself.",
    "Trusted: ref.ExpMap.Cleanup as the statement's rule; the janitor goroutine's timing is replaced by explicit cleanup operations at every position.",
    "explicit-state model checking (BFS over operation histories of the implementation vs reference model)", "DESIGN.md §C11")
chk("C12",
    "Complete enumeration of limit x fraction x strategy x EvictionNeeded x backend cells, each with every cache size around and far above the limit and every access history up to the bound (reads, ExpireAll, re-writes; with and without rank ties; 1s and 1us apart; additional long-expired entries that the cycle deletes first); two real cleanup cycles per history; amount, order and metric oracles evaluated on every case.",
    "Trusted: harness rank model (expiry / last served instant / serve count). Heap and Sys limits are configured at a value that can never be exceeded (they must not cause eviction); exceeding them is only reachable through EvictionNeeded (runtime.ReadMemStats is not seamed).",
    "exhaustive enumeration of a finite configuration x history table on the implementation", "DESIGN.md §C12")
chk("C13",
    "All ordered entry sequences up to the bound over the key-length x value-shape x expiry alphabet, with the dump order forced (shard placement for ShardedMap, every Range permutation for SyncMap through the sync.Map shim), for every backend pairing, 3-hop relays and a 300-entry cache; entries are written through one scratch key buffer and the target is compared with the entries WRITTEN; value types are registered through a variadic GobRegister call that repeats a known type; caches with default, LRU and LFU eviction configuration; sources expired with ExpireAll before the dump.",
    "Trusted: encoding/gob round-trips the chosen value alphabet (verified by the SM->SM cells themselves). Entry sequences longer than the bound are represented only by the 300-entry case.",
    "exhaustive enumeration of bounded input sequences in every iteration order on the implementation", "DESIGN.md §C13")

chk("C02",
    "Exhaustive enumeration of schedules (preemption-bounded) of concurrent Gets on the real Failover/FailoverOf, crossed with builder outcome scripts and with a backend Read/Write fault injected at every call position (deviation-bounded); plus two constructed hash-colliding keys and a caller reusing one key buffer, and a builder whose error satisfies ErrWithExpiredItem and carries a foreign value; every returned (value, error) pair is traced to a finished builder invocation for the same key, the preloaded content or the injected fault.",
    "Trusted: token discipline of the harness (values carry key, origin, invocation index). Same scheduling granularity and bounds as C01; at most 1 (quick) / 2 (thorough) injected faults per execution.",
    "stateless model checking of the implementation with fault enumeration (preemption- and deviation-bounded DFS)", "DESIGN.md §C02")
chk("C03",
    "Complete enumeration of the finite decision table (4 entry states x failure cache x SyncUpdate x SyncRead x FailHard x MaxStaleness x FailedUpdateTTL x builder outcome) on all six API x backend pairings (Failover / FailoverOf over ShardedMap, SyncMap, ShardedMapOf: 3072 cells), each cell executed on the real code under the scheduler with all schedules of caller continuation and background build (unbounded, happens-before cached), compared with ref.FailoverTable written from the README; plus explicit-state search over Get (plain and under a caller TTL) / clock / ExpireAll sequences against ref.FModel so that cells are entered from non-initial states.",
    "Trusted: ref.FailoverTable as a faithful transcription of README bullets 2-7 (two ambiguous cells accept either documented outcome).",
    "exhaustive enumeration of a finite configuration table + stateless model checking of each cell", "DESIGN.md §C03")

chk("C04",
    "Exhaustive enumeration of schedules (preemption-bounded) of concurrent Gets plus caller behaviour after return (overwrite or reuse of the key buffer at every scheduling position relative to the background build, context cancellation), builders that succeed, fail or panic (recovered by the caller), and one injected backend fault at every call position; termination through the scheduler's deadlock detection, Gets that follow an aborted walk of the backend; lock accounting at quiescence, every completed Get has a value or an error, a Get at quiescence that must observe the last completed build, and a black-box follow-up that must rebuild every key exactly once.",
    "Trusted: verif-tagged key-lock accessor; follow-up phase as the black-box meaning of 'a later Get is able to build again'. Same granularity and bounds as C01.",
    "stateless model checking of the implementation with fault enumeration (preemption- and deviation-bounded DFS, deadlock detection)", "DESIGN.md §C04")

chk("C05",
    "(a,c) exhaustive schedule enumeration of SyncRead bursts (2-3 threads) on the real code with a builder-invocation counter as oracle, also against a slow data source followed by one more Get that must not build; (b) exhaustive enumeration of all operation sequences up to the bound over Get(ok)/Get(fail) (plain, under a cancelled caller context, under a caller TTL, of a second key)/clock advances around the failure window/ExpireAll/cleanup cycles of the internal failure cache, for three FailedUpdateTTL settings and the jitter answer at both extremes, under the virtual clock.",
    "Trusted: virtual clock/rand seams. Bursts happen at one virtual instant; bounds as C01.",
    "stateless model checking of the implementation (schedules) + exhaustive bounded operation-sequence enumeration", "DESIGN.md §C05")
chk("C06",
    "Complete enumeration of the caller-TTL x builder-WithTTL-behaviour x path (cold, sync/background update incl. unchanged value under ObserveMutability and nested builder TTL scopes, waiter, SkipRead on every entry state with and without a cached failure, a SkipRead Get joining an in-flight update) x cancellation/deadline grid on the three front-ends, each case run under the scheduler with all schedules; a recording backend wrapper and the builder observe the TTL of every store and the build context.",
    "Trusted: recording wrapper; 'smallest non-zero' read over signed durations. TTL values outside the grid are not explored.",
    "exhaustive enumeration of a finite input/configuration table + stateless model checking of each case", "DESIGN.md §C06")

chk("C15",
    "(seq) complete enumeration of key->label incidence structures x label argument lists (ordered, duplicates included) x deleter sets x registration style (one call, repeated, one label per call, cumulative) incl. two keys of equal 64-bit hash and caches registered only after the labelling, with a Delete failure injected at every call position of the fault-free run followed by a retry, and a second write/label/invalidate round on the same index; (conc) exhaustive schedule enumeration (preemption-bounded; thorough: unbounded, HB cached) of AddLabels/AddCache/InvalidateByLabels threads on a shared index with a final-sweep oracle.",
    "Trusted: harness deleter wrappers; Go map iteration order is owned through the vinst map-range rewrite (sorted cursor). Unsynchronised memory access is left to C16.",
    "exhaustive input and fault-position enumeration + stateless model checking of the implementation", "DESIGN.md §C15")
chk("C17",
    "(seq) explicit-state BFS over Invalidate (also with a panicking callback recovered by the caller, and under an already cancelled context) / clock-advance / Callbacks=nil sequences against the acceptance model, every path under the scheduler (a call that never returns is a detected deadlock), the Invalidator's private timestamp being part of the state key; (conc) exhaustive schedule enumeration of 2-3 Invalidate callers plus a clock thread, with callbacks that contain a scheduling point so that overlap would be observable; every rejection must be explained by an accepted run less than SkipInterval earlier.",
    "Trusted: virtual clock; attribution of callbacks to calls through a context value.",
    "explicit-state BFS + stateless model checking of the implementation (preemption-bounded / HB-cached DFS)", "DESIGN.md §C17")

chk("C18",
    "(backends) explicit-state BFS over C07's operation alphabet with a recording StatsTracker, comparing metric totals with reference-model-derived counts after every transition; (Failover) the complete lone-Get decision table, the same table with a backend call failing at every position, cleanup cycles that delete expired entries and evict, and concurrent 2-3 thread workloads on two keys (incl. SkipRead) under the scheduler, comparing totals at quiescence with the harness's own operation log in every explored schedule.",
    "Trusted: harness operation log (pass-through backend wrapper, builder counters). Reads of Failover's internal failure cache are not observable and not accounted.",
    "explicit-state BFS + stateless model checking of the implementation (preemption-bounded DFS)", "DESIGN.md §C18")

chk("C09",
    "Explicit-state BFS over operation sequences over Read/Write/Delete/Load/ExpireAll/labels on three constructed, pairwise xxhash64-colliding keys plus a plain key (3 backends, with and without key-buffer scribbling after every call) against an ideal per-key model that only tolerates a miss explained by a later colliding write; plus exhaustive schedule enumeration of Failover Gets whose caller overwrites or reuses the key buffer at every scheduling position relative to the background build.",
    "Trusted: the collision construction is asserted against cespare/xxhash at run time; ideal model ref.ExpMap. Colliding keys other than the constructed 64-byte family are not explored.",
    "constructed adversarial inputs + explicit-state BFS + stateless model checking of the implementation", "DESIGN.md §C09")

chk("C08",
    "Exhaustive enumeration of schedules (preemption bound 2 with happens-before caching; thorough: unbounded) of all small client programs (2-3 threads x 1-2 Write/Read/Delete operations on two same-shard keys, and once more on two keys with the SAME xxhash64 against a slot model) plus one batch thread (ExpireAll, DeleteAll, delete-expired, eviction under three strategies, Walk, Walk whose callback gives up) on the three real backends (finite and Unlimited TimeToLive); every per-key invocation/response history is checked with porcupine v1.3.0 against a nondeterministic register-with-expiry model in which a batch call is one pseudo-operation per key.",
    "Trusted: porcupine; the register model. Abstraction: the instrumented build has 4 instead of 128 shards (vinst -const shards=4) so that batch operations are short enough to interleave exhaustively. Exhaustive below 3(+1) threads x 2 operations only.",
    "stateless model checking of the implementation (DFS over schedules, HB caching) + linearizability checking of every explored history", "DESIGN.md §C08")

chk("C14",
    "Complete enumeration of cache-name assignments (names that need URL escaping, the empty name) x entry sets x backend pairings x request perturbations x logger capability {none, Error-only, all levels} through an in-process RoundTripper, a body cut / body read failure injected at EVERY byte offset of the exported stream, and every type-registration sequence up to length 4 evaluated in a fresh process each; importer contents are compared with the exporter's.",
    "Trusted: net/http's Handler/Request plumbing, encoding/gob. Entry sets beyond two entries per cache and type pools beyond the four listed types are not explored.",
    "exhaustive input and fault-position enumeration on the implementation (fresh-process enumeration for the hash)", "DESIGN.md §C14")

chk("C16",
    "For every small client program (every unordered pair of 13 backend operations x 3 backends x 3 strategies, every pair of InvalidationIndex operations, Failover/FailoverOf Get pairs incl. background builds and a shared TTL-carrying caller context, Invalidate pairs; finite and Unlimited TimeToLive; thorough: triples) ALL interleavings of the program's synchronisation operations within the bound are executed in a -race build under the controlled scheduler, whose hand-offs are invisible to the detector (plain words touched only from //go:norace code); Go's race detector decides each execution.",
    "Single-key operations pass a key buffer of their own and rewrite it after the call (a reference kept by the library is a race with Walk/Dump/eviction). Trusted: Go race detector (happens-before, Go memory model) with report suppression disabled; invisibility of the hand-off (probed, DESIGN §2.6). Abstraction: 4 shards. Larger client programs are not explored. Known findings are matched on the exact unordered pair of racing bool64/cache functions.",
    "stateless model checking of the implementation (DFS over schedules, HB caching) with the race detector as per-execution oracle", "DESIGN.md §C16")
