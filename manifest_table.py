NOT_YET = {}
chk("C01",
    "Exhaustive enumeration of all thread schedules (within a stated preemption bound) of 2-3 concurrent Get callers plus background builds on the real Failover/FailoverOf code, for every cell of the configuration x entry-state x builder-script table; a monitor inside the builder asserts at most one build per key in flight in every explored state.",
    "Trusted: Go toolchain, the shim packages (delegate to std primitives), vinst source rewriting, the harness builder monitor. Code between two synchronisation operations is executed atomically; >3 threads and >bound preemptions are not explored.",
    "stateless model checking of the implementation (controlled scheduler, preemption-bounded DFS over schedules)", "DESIGN.md §C01")
