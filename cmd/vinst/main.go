// Command vinst instruments the non-test sources of package github.com/bool64/cache for the
// vsched scheduler. It never touches /repo: rewritten copies go to an output directory together with
// an overlay.json for `go build -overlay`.
//
//	vinst -src /repo -out <dir> [-tags verif]
//
// Rewrites (purely syntactic, see DESIGN.md §2.1):
//   - imports sync, sync/atomic, time, math/rand -> verif/shim/...
//   - go f(a...)            -> vsched.Go("<enclosing func>", func(){ f(a...) }) with operands evaluated first
//   - <-ch, v,ok := <-ch    -> vsched.Recv / vsched.Recv2
//   - ch <- v               -> vsched.Send
//   - close(ch)             -> vsched.Close
//   - select without default -> polling form with vsched.Poll(); select with default gets a vsched.Yield()
//   - for ... range <chan>  -> detected with go/types when type checking succeeds, rewritten to Recv2 loop
//   - function literals passed to runtime.SetFinalizer are left untouched.
//
// Anything it cannot handle is an INSTRUMENTATION-ERROR (exit 2).
package main

import (
	"bytes"
	"encoding/json"
	"flag"
	"fmt"
	"go/ast"
	"go/build"
	"go/format"
	"go/parser"
	"go/token"
	"os"
	"path/filepath"
	"sort"
	"strconv"
	"strings"
)

var importMap = map[string]string{
	"sync":        "verif/shim/sync",
	"sync/atomic": "verif/shim/atomic",
	"time":        "verif/shim/time",
	"math/rand":   "verif/shim/rand",
}

func fail(format string, a ...interface{}) {
	fmt.Fprintf(os.Stderr, "INSTRUMENTATION-ERROR: "+format+"\n", a...)
	os.Exit(2)
}

type rewriter struct {
	fset      *token.FileSet
	encl      string
	used      bool
	nlabel    int
	file      string
	rangeChan map[*ast.RangeStmt]bool
	rangeMap  map[*ast.RangeStmt]bool
}

func main() {
	src := flag.String("src", "/repo", "package directory")
	as := flag.String("as", "", "directory whose files the overlay replaces (default: -src); lets a scratch copy of the package stand in for the module's directory")
	out := flag.String("out", "", "output directory")
	tags := flag.String("tags", "verif", "build tags (comma separated)")
	consts := flag.String("const", "", "NAME=VALUE[,NAME=VALUE]: replace the literal value of package-level integer constants (abstraction knob, e.g. shards=4)")
	flag.Parse()

	constRepl := map[string]string{}

	for _, kv := range strings.Split(*consts, ",") {
		if k, v, ok := strings.Cut(kv, "="); ok {
			constRepl[k] = v
		}
	}

	if *out == "" {
		fail("missing -out")
	}

	if err := os.MkdirAll(*out, 0o755); err != nil {
		fail("%v", err)
	}

	ctx := build.Default
	ctx.BuildTags = strings.Split(*tags, ",")

	entries, err := os.ReadDir(*src)
	if err != nil {
		fail("%v", err)
	}

	overlay := map[string]string{}
	fset := token.NewFileSet()

	var names []string

	for _, e := range entries {
		n := e.Name()
		if e.IsDir() || !strings.HasSuffix(n, ".go") || strings.HasSuffix(n, "_test.go") {
			continue
		}

		ok, err := ctx.MatchFile(*src, n)
		if err != nil {
			fail("%s: %v", n, err)
		}

		if ok {
			names = append(names, n)
		}
	}

	sort.Strings(names)

	var files []*ast.File

	for _, n := range names {
		f, err := parser.ParseFile(fset, filepath.Join(*src, n), nil, parser.ParseComments)
		if err != nil {
			fail("parse %s: %v", n, err)
		}

		files = append(files, f)
	}

	rangeChan, rangeMap := detectRangeOverChan(fset, files)

	for i, f := range files {
		n := names[i]
		rw := &rewriter{fset: fset, file: n, rangeChan: rangeChan, rangeMap: rangeMap}
		rw.rewriteFile(f)

		for _, d := range f.Decls {
			gd, ok := d.(*ast.GenDecl)
			if !ok || gd.Tok != token.CONST {
				continue
			}

			for _, sp := range gd.Specs {
				vs := sp.(*ast.ValueSpec)
				for i, name := range vs.Names {
					if v, ok := constRepl[name.Name]; ok && i < len(vs.Values) {
						if lit, ok := vs.Values[i].(*ast.BasicLit); ok && lit.Kind == token.INT {
							lit.Value = v
							fmt.Printf("vinst: constant %s set to %s in %s\n", name.Name, v, n)
							delete(constRepl, name.Name)
						}
					}
				}
			}
		}

		var buf bytes.Buffer
		if err := format.Node(&buf, fset, f); err != nil {
			fail("print %s: %v", n, err)
		}

		outSrc := buf.Bytes()
		if rw.used {
			outSrc = insertImport(outSrc)
		}

		dst := filepath.Join(*out, n)
		if err := os.WriteFile(dst, outSrc, 0o644); err != nil {
			fail("%v", err)
		}

		base := *src
		if *as != "" {
			base = *as
		}

		abs, _ := filepath.Abs(filepath.Join(base, n))
		overlay[abs] = dst
	}

	// non-test Go files that exist only in the directory being stood in for are removed from the build
	if *as != "" && *as != *src {
		have := map[string]bool{}
		for _, n := range names {
			have[n] = true
		}

		old, _ := os.ReadDir(*as)
		for _, e := range old {
			n := e.Name()
			if e.IsDir() || !strings.HasSuffix(n, ".go") || strings.HasSuffix(n, "_test.go") || have[n] {
				continue
			}

			abs, _ := filepath.Abs(filepath.Join(*as, n))
			overlay[abs] = ""
		}
	}

	js, _ := json.MarshalIndent(map[string]interface{}{"Replace": overlay}, "", " ")
	if err := os.WriteFile(filepath.Join(*out, "overlay.json"), js, 0o644); err != nil {
		fail("%v", err)
	}

	for k := range constRepl {
		fmt.Printf("vinst: note: constant %s not found as an integer literal; left unchanged\n", k)
	}

	fmt.Printf("vinst: %d files instrumented into %s\n", len(names), *out)
}

func (rw *rewriter) rewriteFile(f *ast.File) {
	for _, imp := range f.Imports {
		p, _ := strconv.Unquote(imp.Path.Value)
		if np, ok := importMap[p]; ok {
			imp.Path.Value = strconv.Quote(np)
			// Keep the package name the code uses.
			if imp.Name == nil {
				base := p[strings.LastIndex(p, "/")+1:]
				imp.Name = ast.NewIdent(base)
			}
		}
	}

	for _, d := range f.Decls {
		fd, ok := d.(*ast.FuncDecl)
		if !ok {
			// Package-level var initialisers may contain function literals.
			if gd, ok := d.(*ast.GenDecl); ok {
				for _, s := range gd.Specs {
					if vs, ok := s.(*ast.ValueSpec); ok {
						rw.encl = "init"
						for i := range vs.Values {
							vs.Values[i] = rw.expr(vs.Values[i])
						}
					}
				}
			}

			continue
		}

		if fd.Body == nil {
			continue
		}

		rw.encl = fd.Name.Name
		rw.block(fd.Body)
	}

}

// insertImport adds the vsched import as a separate import declaration right after the package clause.
func insertImport(src []byte) []byte {
	lines := strings.SplitAfter(string(src), "\n")
	for i, l := range lines {
		if strings.HasPrefix(l, "package ") {
			lines[i] = l + "\nimport vsched \"verif/vsched\"\n"
			return []byte(strings.Join(lines, ""))
		}
	}

	fail("no package clause")

	return nil
}

func (rw *rewriter) vcall(at ast.Node, fn string, args ...ast.Expr) *ast.CallExpr {
	rw.used = true

	pos, end := at.Pos(), at.End()

	return &ast.CallExpr{
		Fun:    &ast.SelectorExpr{X: &ast.Ident{Name: "vsched", NamePos: pos}, Sel: &ast.Ident{Name: fn, NamePos: pos}},
		Lparen: pos, Args: args, Rparen: end - 1,
	}
}

func (rw *rewriter) block(b *ast.BlockStmt) {
	if b == nil {
		return
	}

	b.List = rw.stmts(b.List)
}

func (rw *rewriter) stmts(list []ast.Stmt) []ast.Stmt {
	var out []ast.Stmt

	for _, s := range list {
		out = append(out, rw.stmt(s)...)
	}

	return out
}

func one(s ast.Stmt) []ast.Stmt { return []ast.Stmt{s} }

func isRecv(e ast.Expr) (*ast.UnaryExpr, bool) {
	for {
		p, ok := e.(*ast.ParenExpr)
		if !ok {
			break
		}

		e = p.X
	}

	u, ok := e.(*ast.UnaryExpr)

	return u, ok && u.Op == token.ARROW
}

func (rw *rewriter) stmt(s ast.Stmt) []ast.Stmt {
	switch s := s.(type) {
	case nil:
		return nil
	case *ast.BlockStmt:
		rw.block(s)
	case *ast.ExprStmt:
		s.X = rw.expr(s.X)
	case *ast.AssignStmt:
		if len(s.Lhs) == 2 && len(s.Rhs) == 1 {
			if u, ok := isRecv(s.Rhs[0]); ok {
				s.Rhs[0] = rw.vcall(u, "Recv2", rw.expr(u.X))

				for i := range s.Lhs {
					s.Lhs[i] = rw.expr(s.Lhs[i])
				}

				return one(s)
			}
		}

		for i := range s.Lhs {
			s.Lhs[i] = rw.expr(s.Lhs[i])
		}

		for i := range s.Rhs {
			s.Rhs[i] = rw.expr(s.Rhs[i])
		}
	case *ast.DeclStmt:
		if gd, ok := s.Decl.(*ast.GenDecl); ok {
			for _, sp := range gd.Specs {
				if vs, ok := sp.(*ast.ValueSpec); ok {
					if len(vs.Names) == 2 && len(vs.Values) == 1 {
						if u, ok := isRecv(vs.Values[0]); ok {
							vs.Values[0] = rw.vcall(u, "Recv2", rw.expr(u.X))
							continue
						}
					}

					for i := range vs.Values {
						vs.Values[i] = rw.expr(vs.Values[i])
					}
				}
			}
		}
	case *ast.GoStmt:
		return rw.goStmt(s)
	case *ast.DeferStmt:
		c := rw.expr(s.Call)

		ce, ok := c.(*ast.CallExpr)
		if !ok {
			fail("%s: defer of rewritten non-call", rw.pos(s))
		}

		s.Call = ce
	case *ast.SendStmt:
		return one(&ast.ExprStmt{X: rw.vcall(s, "Send", rw.expr(s.Chan), rw.expr(s.Value))})
	case *ast.IncDecStmt:
		s.X = rw.expr(s.X)
	case *ast.ReturnStmt:
		for i := range s.Results {
			s.Results[i] = rw.expr(s.Results[i])
		}
	case *ast.IfStmt:
		s.Init = rw.simple(s.Init)
		s.Cond = rw.expr(s.Cond)
		rw.block(s.Body)

		if s.Else != nil {
			r := rw.stmt(s.Else)
			if len(r) != 1 {
				fail("%s: else branch rewrite produced %d statements", rw.pos(s), len(r))
			}

			s.Else = r[0]
		}
	case *ast.ForStmt:
		s.Init = rw.simple(s.Init)
		if s.Cond != nil {
			s.Cond = rw.expr(s.Cond)
		}

		s.Post = rw.simple(s.Post)
		rw.block(s.Body)
	case *ast.RangeStmt:
		if rw.rangeChan[s] {
			return rw.rangeOverChan(s)
		}

		if rw.rangeMap[s] {
			return rw.rangeOverMap(s)
		}

		s.X = rw.expr(s.X)
		rw.block(s.Body)
	case *ast.SwitchStmt:
		s.Init = rw.simple(s.Init)
		if s.Tag != nil {
			s.Tag = rw.expr(s.Tag)
		}

		rw.block(s.Body)
	case *ast.TypeSwitchStmt:
		s.Init = rw.simple(s.Init)
		s.Assign = rw.simple(s.Assign)
		rw.block(s.Body)
	case *ast.CaseClause:
		for i := range s.List {
			s.List[i] = rw.expr(s.List[i])
		}

		s.Body = rw.stmts(s.Body)
	case *ast.LabeledStmt:
		if sel, ok := s.Stmt.(*ast.SelectStmt); ok {
			return rw.selectStmt(sel, s)
		}

		r := rw.stmt(s.Stmt)
		if len(r) == 0 {
			s.Stmt = &ast.EmptyStmt{}
			return one(s)
		}

		s.Stmt = r[0]

		return append(one(s), r[1:]...)
	case *ast.SelectStmt:
		return rw.selectStmt(s, nil)
	case *ast.BranchStmt, *ast.EmptyStmt:
	default:
		fail("%s: unsupported statement %T", rw.pos(s), s)
	}

	return one(s)
}

func (rw *rewriter) simple(s ast.Stmt) ast.Stmt {
	if s == nil {
		return nil
	}

	r := rw.stmt(s)
	if len(r) != 1 {
		fail("%s: simple statement rewrite produced %d statements", rw.pos(s), len(r))
	}

	return r[0]
}

func (rw *rewriter) pos(n ast.Node) string { return rw.fset.Position(n.Pos()).String() }

func (rw *rewriter) goStmt(s *ast.GoStmt) []ast.Stmt {
	call := s.Call
	name := &ast.BasicLit{Kind: token.STRING, Value: strconv.Quote(rw.encl)}

	if fl, ok := call.Fun.(*ast.FuncLit); ok && len(call.Args) == 0 && len(fl.Type.Params.List) == 0 &&
		(fl.Type.Results == nil || len(fl.Type.Results.List) == 0) {
		rw.block(fl.Body)

		return one(&ast.ExprStmt{X: rw.vcall(s, "Go", name, fl)})
	}

	// General form: evaluate function value and operands now, call later.
	var (
		pre  []ast.Stmt
		args []ast.Expr
	)

	rw.nlabel++
	fnID := ast.NewIdent(fmt.Sprintf("_vgoF%d", rw.nlabel))
	pre = append(pre, &ast.AssignStmt{Lhs: []ast.Expr{fnID}, Tok: token.DEFINE, Rhs: []ast.Expr{rw.expr(call.Fun)}})

	for i, a := range call.Args {
		id := ast.NewIdent(fmt.Sprintf("_vgoA%d_%d", rw.nlabel, i))
		pre = append(pre, &ast.AssignStmt{Lhs: []ast.Expr{id}, Tok: token.DEFINE, Rhs: []ast.Expr{rw.expr(a)}})
		args = append(args, id)
	}

	inner := &ast.CallExpr{Fun: fnID, Args: args, Ellipsis: call.Ellipsis}
	if call.Ellipsis.IsValid() {
		inner.Ellipsis = 1
	}

	lit := &ast.FuncLit{
		Type: &ast.FuncType{Params: &ast.FieldList{}},
		Body: &ast.BlockStmt{List: []ast.Stmt{&ast.ExprStmt{X: inner}}},
	}
	pre = append(pre, &ast.ExprStmt{X: rw.vcall(s, "Go", name, lit)})

	return one(&ast.BlockStmt{List: pre})
}

func (rw *rewriter) selectStmt(s *ast.SelectStmt, lab *ast.LabeledStmt) []ast.Stmt {
	hasDefault := false

	for _, c := range s.Body.List {
		if c.(*ast.CommClause).Comm == nil {
			hasDefault = true
		}
	}

	if hasDefault {
		for _, c := range s.Body.List {
			cc := c.(*ast.CommClause)
			cc.Body = rw.stmts(cc.Body)
		}

		var st ast.Stmt = s
		if lab != nil {
			lab.Stmt = s
			st = lab
		}

		return []ast.Stmt{&ast.ExprStmt{X: rw.vcall(s, "Yield")}, st}
	}

	// A blocking select keeps its original form when no controlled execution is active (daemon goroutines
	// running for real), and becomes a polling loop under the scheduler:
	//
	//	if !vsched.Active() { <original select> } else { L: select { ...; default: vsched.Poll(); goto L } }
	orig := rw.cloneStmt(s)

	for _, c := range orig.(*ast.SelectStmt).Body.List {
		cc := c.(*ast.CommClause)
		cc.Body = rw.stmts(cc.Body)
	}

	for _, c := range s.Body.List {
		cc := c.(*ast.CommClause)
		cc.Body = rw.stmts(cc.Body)
	}

	// Polling form. The channel of every case is evaluated into a temporary; vsched.SelectPick names the case to run
	// (the runtime would choose at random among several ready ones) and the temporaries of all other cases are set
	// to nil, which disables them:
	//
	//	L: c0 := <ch0>; c1 := <ch1>; p := vsched.SelectPick(mask, c0, c1)
	//	   if p != 0 { c0 = nil }; if p != 1 { c1 = nil }
	//	   select { case v := <-c0: ...; case c1 <- x: ...; default: vsched.Poll(); goto L }
	rw.nlabel++
	nsel := rw.nlabel
	label := fmt.Sprintf("_vsel%d", nsel)

	var (
		pre      []ast.Stmt
		args     []ast.Expr
		disable  []ast.Stmt
		sendMask uint64
	)

	pick := ast.NewIdent(fmt.Sprintf("_vpick%d", nsel))

	for i, c := range s.Body.List {
		cc := c.(*ast.CommClause)
		tmp := ast.NewIdent(fmt.Sprintf("_vsc%d_%d", nsel, i))

		var chx *ast.Expr

		switch comm := cc.Comm.(type) {
		case *ast.SendStmt:
			chx = &comm.Chan
			sendMask |= 1 << uint(i)
		case *ast.ExprStmt:
			chx = &comm.X.(*ast.UnaryExpr).X
		case *ast.AssignStmt:
			chx = &comm.Rhs[0].(*ast.UnaryExpr).X
		default:
			fail("%s: unsupported select case", rw.pos(cc))
		}

		pre = append(pre, &ast.AssignStmt{Lhs: []ast.Expr{tmp}, Tok: token.DEFINE, Rhs: []ast.Expr{*chx}})
		*chx = ast.NewIdent(tmp.Name)
		args = append(args, ast.NewIdent(tmp.Name))
		disable = append(disable, &ast.IfStmt{
			Cond: &ast.BinaryExpr{X: ast.NewIdent(pick.Name), Op: token.NEQ, Y: &ast.BasicLit{Kind: token.INT, Value: fmt.Sprint(i)}},
			Body: &ast.BlockStmt{List: []ast.Stmt{&ast.AssignStmt{Lhs: []ast.Expr{ast.NewIdent(tmp.Name)}, Tok: token.ASSIGN, Rhs: []ast.Expr{ast.NewIdent("nil")}}}},
		})
	}

	pickCall := rw.vcall(s.Body, "SelectPick", append([]ast.Expr{&ast.BasicLit{Kind: token.INT, Value: fmt.Sprint(sendMask)}}, args...)...)
	pre = append(pre, &ast.AssignStmt{Lhs: []ast.Expr{pick}, Tok: token.DEFINE, Rhs: []ast.Expr{pickCall}})
	pre = append(pre, disable...)

	s.Body.List = append(s.Body.List, &ast.CommClause{Body: []ast.Stmt{
		&ast.ExprStmt{X: rw.vcall(s.Body, "Poll")},
		&ast.BranchStmt{Tok: token.GOTO, Label: ast.NewIdent(label)},
	}})

	var poll ast.Stmt = &ast.LabeledStmt{Label: ast.NewIdent(label), Stmt: &ast.BlockStmt{List: append(pre, s)}}

	dual := &ast.IfStmt{
		Cond: &ast.UnaryExpr{Op: token.NOT, X: rw.vcall(s, "Active")},
		Body: &ast.BlockStmt{List: []ast.Stmt{orig}},
		Else: &ast.BlockStmt{List: []ast.Stmt{poll}},
	}

	if lab != nil {
		// an existing label (target of break/continue inside the cases) keeps naming the whole construct
		lab.Stmt = dual
		return one(lab)
	}

	return one(dual)
}

// cloneStmt deep-copies a statement by printing and re-parsing it.
func (rw *rewriter) cloneStmt(s ast.Stmt) ast.Stmt {
	var buf bytes.Buffer
	if err := format.Node(&buf, rw.fset, s); err != nil {
		fail("%s: cannot print statement for cloning: %v", rw.pos(s), err)
	}

	src := "package p\nfunc _() {\n" + buf.String() + "\n}\n"

	f, err := parser.ParseFile(token.NewFileSet(), "clone.go", src, 0)
	if err != nil {
		fail("%s: cannot re-parse cloned statement: %v", rw.pos(s), err)
	}

	body := f.Decls[0].(*ast.FuncDecl).Body.List
	if len(body) != 1 {
		fail("%s: cloned statement parsed into %d statements", rw.pos(s), len(body))
	}

	clearPos(body[0])

	return body[0]
}

// clearPos removes position information of a cloned subtree (it refers to another file set).
func clearPos(n ast.Node) {
	ast.Inspect(n, func(x ast.Node) bool {
		switch v := x.(type) {
		case *ast.Ident:
			v.NamePos = token.NoPos
		case *ast.BasicLit:
			v.ValuePos = token.NoPos
		case *ast.CallExpr:
			v.Lparen, v.Rparen = token.NoPos, token.NoPos
		case *ast.SelectStmt:
			v.Select = token.NoPos
		case *ast.BlockStmt:
			v.Lbrace, v.Rbrace = token.NoPos, token.NoPos
		case *ast.CommClause:
			v.Case, v.Colon = token.NoPos, token.NoPos
		case *ast.UnaryExpr:
			v.OpPos = token.NoPos
		case *ast.IfStmt:
			v.If = token.NoPos
		case *ast.ReturnStmt:
			v.Return = token.NoPos
		case *ast.AssignStmt:
			v.TokPos = token.NoPos
		case *ast.CompositeLit:
			v.Lbrace, v.Rbrace = token.NoPos, token.NoPos
		case *ast.ParenExpr:
			v.Lparen, v.Rparen = token.NoPos, token.NoPos
		case *ast.BinaryExpr:
			v.OpPos = token.NoPos
		case *ast.ForStmt:
			v.For = token.NoPos
		case *ast.FuncLit:
			v.Type.Func = token.NoPos
		}

		return true
	})
}

// rangeOverChan desugars `for v := range ch { body }` into a Recv2 loop.
func (rw *rewriter) rangeOverChan(s *ast.RangeStmt) []ast.Stmt {
	rw.nlabel++
	ch := ast.NewIdent(fmt.Sprintf("_vch%d", rw.nlabel))
	v := ast.NewIdent(fmt.Sprintf("_vval%d", rw.nlabel))
	ok := ast.NewIdent(fmt.Sprintf("_vok%d", rw.nlabel))

	rw.block(s.Body)

	body := []ast.Stmt{
		&ast.AssignStmt{Lhs: []ast.Expr{v, ok}, Tok: token.DEFINE, Rhs: []ast.Expr{rw.vcall(s, "Recv2", ch)}},
		&ast.IfStmt{Cond: &ast.UnaryExpr{Op: token.NOT, X: ok}, Body: &ast.BlockStmt{List: []ast.Stmt{&ast.BranchStmt{Tok: token.BREAK}}}},
	}

	if s.Key != nil {
		body = append(body, &ast.AssignStmt{Lhs: []ast.Expr{s.Key}, Tok: s.Tok, Rhs: []ast.Expr{v}})
	} else {
		body = append(body, &ast.AssignStmt{Lhs: []ast.Expr{ast.NewIdent("_")}, Tok: token.ASSIGN, Rhs: []ast.Expr{v}})
	}

	body = append(body, s.Body.List...)

	return one(&ast.BlockStmt{List: []ast.Stmt{
		&ast.AssignStmt{Lhs: []ast.Expr{ch}, Tok: token.DEFINE, Rhs: []ast.Expr{rw.expr(s.X)}},
		&ast.ForStmt{Body: &ast.BlockStmt{List: body}},
	}})
}

// rangeOverMap rewrites `for k, v := range m { body }` into a deterministic cursor iteration:
//
//	for _vit := vsched.MapIter(m); _vit.Next(); { k, v := _vit.Key(), _vit.Value(); body }
func (rw *rewriter) rangeOverMap(s *ast.RangeStmt) []ast.Stmt {
	rw.nlabel++
	it := ast.NewIdent(fmt.Sprintf("_vit%d", rw.nlabel))

	rw.block(s.Body)

	sel := func(name string) ast.Expr {
		return &ast.CallExpr{Fun: &ast.SelectorExpr{X: ast.NewIdent(it.Name), Sel: ast.NewIdent(name)}}
	}

	var pre []ast.Stmt

	isBlank := func(e ast.Expr) bool {
		id, ok := e.(*ast.Ident)
		return e == nil || (ok && id.Name == "_")
	}

	tok := s.Tok
	if tok == token.ILLEGAL {
		tok = token.DEFINE
	}

	if !isBlank(s.Key) {
		pre = append(pre, &ast.AssignStmt{Lhs: []ast.Expr{s.Key}, Tok: tok, Rhs: []ast.Expr{sel("Key")}})
	}

	if !isBlank(s.Value) {
		pre = append(pre, &ast.AssignStmt{Lhs: []ast.Expr{s.Value}, Tok: tok, Rhs: []ast.Expr{sel("Value")}})
	}

	// the original body keeps its own scope (it may redeclare the loop variables, e.g. `k := k`)
	body := &ast.BlockStmt{List: append(pre, s.Body), Lbrace: s.Body.Lbrace, Rbrace: s.Body.Rbrace}

	return one(&ast.ForStmt{
		For:  s.For,
		Init: &ast.AssignStmt{Lhs: []ast.Expr{it}, Tok: token.DEFINE, Rhs: []ast.Expr{rw.vcall(s.X, "MapIter", rw.expr(s.X))}},
		Cond: sel("Next"),
		Body: body,
	})
}

func (rw *rewriter) exprs(list []ast.Expr) {
	for i := range list {
		list[i] = rw.expr(list[i])
	}
}

func (rw *rewriter) expr(e ast.Expr) ast.Expr {
	switch e := e.(type) {
	case nil:
		return nil
	case *ast.UnaryExpr:
		e.X = rw.expr(e.X)
		if e.Op == token.ARROW {
			return rw.vcall(e, "Recv", e.X)
		}
	case *ast.BinaryExpr:
		e.X = rw.expr(e.X)
		e.Y = rw.expr(e.Y)
	case *ast.CallExpr:
		if sel, ok := e.Fun.(*ast.SelectorExpr); ok {
			if x, ok := sel.X.(*ast.Ident); ok && x.Name == "runtime" && sel.Sel.Name == "SetFinalizer" {
				return e // finalizers run on a runtime goroutine: keep them on real primitives
			}
		}

		if id, ok := e.Fun.(*ast.Ident); ok && id.Name == "close" && len(e.Args) == 1 {
			return rw.vcall(e, "Close", rw.expr(e.Args[0]))
		}

		e.Fun = rw.expr(e.Fun)
		rw.exprs(e.Args)
	case *ast.ParenExpr:
		e.X = rw.expr(e.X)
	case *ast.SelectorExpr:
		e.X = rw.expr(e.X)
	case *ast.IndexExpr:
		e.X = rw.expr(e.X)
		e.Index = rw.expr(e.Index)
	case *ast.IndexListExpr:
		e.X = rw.expr(e.X)
	case *ast.SliceExpr:
		e.X = rw.expr(e.X)
		e.Low = rw.expr(e.Low)
		e.High = rw.expr(e.High)
		e.Max = rw.expr(e.Max)
	case *ast.StarExpr:
		e.X = rw.expr(e.X)
	case *ast.TypeAssertExpr:
		e.X = rw.expr(e.X)
	case *ast.KeyValueExpr:
		e.Key = rw.expr(e.Key)
		e.Value = rw.expr(e.Value)
	case *ast.CompositeLit:
		rw.exprs(e.Elts)
	case *ast.FuncLit:
		rw.block(e.Body)
	case *ast.Ident, *ast.BasicLit, *ast.Ellipsis,
		*ast.ArrayType, *ast.MapType, *ast.ChanType, *ast.FuncType, *ast.StructType, *ast.InterfaceType:
	default:
		fail("%s: unsupported expression %T", rw.pos(e), e)
	}

	return e
}
