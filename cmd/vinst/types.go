package main

import (
	"go/ast"
	"go/token"
	"go/types"
	"strings"
)

type fakeImporter struct{ pkgs map[string]*types.Package }

func (f fakeImporter) Import(path string) (*types.Package, error) {
	if p, ok := f.pkgs[path]; ok {
		return p, nil
	}

	name := path[strings.LastIndex(path, "/")+1:]
	if name == "v2" {
		name = "xxhash"
	}

	p := types.NewPackage(path, name)
	p.MarkComplete()
	f.pkgs[path] = p

	return p, nil
}

// detectRangeOverChan type-checks the package with all imports stubbed out (errors ignored) and
// reports the range statements whose operand is known to be a channel. Channels whose type comes
// from an imported package stay undetected; they do not occur in code that runs under the scheduler.
func detectRangeOverChan(fset *token.FileSet, files []*ast.File) (map[*ast.RangeStmt]bool, map[*ast.RangeStmt]bool) {
	res := map[*ast.RangeStmt]bool{}
	maps := map[*ast.RangeStmt]bool{}
	info := &types.Info{Types: map[ast.Expr]types.TypeAndValue{}}
	conf := types.Config{Importer: fakeImporter{pkgs: map[string]*types.Package{}}, Error: func(error) {}}

	_, _ = conf.Check("cache", fset, files, info)

	for _, f := range files {
		ast.Inspect(f, func(n ast.Node) bool {
			if rs, ok := n.(*ast.RangeStmt); ok {
				if tv, ok := info.Types[rs.X]; ok && tv.Type != nil {
					if _, ok := tv.Type.Underlying().(*types.Chan); ok {
						res[rs] = true
					}

					if _, ok := tv.Type.Underlying().(*types.Map); ok {
						maps[rs] = true
					}
				}
			}

			return true
		})
	}

	return res, maps
}
