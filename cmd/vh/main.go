// Command vh is the harness binary: it is rebuilt from /repo's current working tree (through the vinst
// overlay) by every check invocation.
//
//	vh run <prop> <tier>                 coordinator
//	vh worker <prop> <tier> i n out deadline
//	vh replay <file>
//	vh cells <prop> <tier>
package main

import (
	"fmt"
	"os"
	"path/filepath"
	"strconv"
	"time"

	"verif/harness"
)

func main() {
	if len(os.Args) < 2 {
		fmt.Fprintln(os.Stderr, "usage: vh run|worker|replay|cells ...")
		os.Exit(2)
	}

	switch os.Args[1] {
	case "run":
		p := harness.Lookup(os.Args[2])
		if p == nil {
			fmt.Fprintf(os.Stderr, "unknown property %s (have %v)\n", os.Args[2], harness.IDs())
			os.Exit(2)
		}

		dir := os.Getenv("VERIF_DIR")
		if dir == "" {
			dir, _ = filepath.Abs(".")
		}

		workers, _ := strconv.Atoi(os.Getenv("VERIF_WORKERS"))
		os.Exit(harness.Coordinate(p, os.Args[3], dir, workers))
	case "worker":
		p := harness.Lookup(os.Args[2])
		i, _ := strconv.Atoi(os.Args[4])
		n, _ := strconv.Atoi(os.Args[5])
		dl, _ := strconv.ParseInt(os.Args[7], 10, 64)
		harness.WorkerMain(p, os.Args[3], i, n, os.Args[6], time.Unix(0, dl))
	case "replay":
		os.Exit(harness.ReplayFile(os.Args[2]))
	case "cells":
		p := harness.Lookup(os.Args[2])
		for _, c := range p.Cells(os.Args[3]) {
			fmt.Println(c.ID)
		}
	default:
		if !harness.Extra(os.Args[1:]) {
			fmt.Fprintln(os.Stderr, "unknown command")
			os.Exit(2)
		}
	}
}
