// Package vsched is a cooperative, fully deterministic thread scheduler for the
// instrumented bool64/cache package plus a depth-first explorer over its choice points.
//
// Exactly one controlled thread (a real goroutine) runs at a time. Every hooked
// synchronisation operation (the shim packages), every harness call-out and every
// environment answer is a *scheduling point*: the running thread announces its next
// operation, parks, and the scheduler picks the next thread among those whose pending
// operation is enabled. The sequence of picks is the schedule; the explorer enumerates
// schedules (explore.go).
//
// All state that is touched while an execution is active lives in fixed-size arrays and
// is accessed only from //go:norace functions that call no runtime helper with race
// hooks (no maps, no growing append, no channels). The baton that hands control from
// one thread to the next is a plain word. The Go race detector therefore sees none of
// the scheduler's hand-offs as happens-before edges and keeps judging the program's own
// synchronisation only (needed for C16); the same code runs in non-race builds.
package vsched

import (
	"fmt"
	"os"
	"runtime"
	"strings"
	"unsafe"
)

// Limits of one execution.
const (
	MaxThreads = 16
	MaxSteps   = 6000
	MaxRes     = 1024
)

// Kind is the kind of a pending operation.
type Kind uint8

// Operation kinds.
const (
	KStart Kind = iota
	KLock
	KUnlock
	KRLock
	KRUnlock
	KAtomicR
	KAtomicW
	KMapR
	KMapW
	KRecv
	KSend
	KClose
	KCall // harness call-out (builder entry/exit, backend wrapper, stats, log ...)
	KClockR
	KClockW
	KEnv
	KJoin
	KPoll
	KYield
	KOnce
	KWGAdd
	KWGWait
	KExit
)

var kindNames = [...]string{
	"start", "lock", "unlock", "rlock", "runlock", "atomic-load", "atomic-rmw", "map-read", "map-write",
	"recv", "send", "close", "call", "clock-read", "clock-write", "env", "join", "poll", "yield", "once",
	"wg-add", "wg-wait", "exit",
}

func (k Kind) String() string { return kindNames[k] }

// isWrite tells whether the kind modifies its resource (dependence relation for HB hashing).
//
//go:norace
func isWrite(k Kind) bool {
	switch k {
	case KAtomicR, KMapR, KClockR, KRLock, KRUnlock:
		return false
	}

	return true
}

const (
	tsUnused uint8 = iota
	tsParked
	tsRunning
	tsDone
)

type thread struct {
	state   uint8
	kind    Kind
	res     uint32
	stp     *int32 // lock state word for KLock/KRLock (0 free, -1 writer, n readers)
	chp     unsafe.Pointer
	stamp   uint32 // step counter at which a KPoll was announced
	joinTid int32  // KJoin: -1 = all
	nops    uint32
	hash    uint64 // hash of the causal past of the thread's last event
	name    string
	tag     uint32
}

type resState struct {
	ptr      unsafe.Pointer
	lastW    uint64
	readsAcc uint64
}

// Step is one recorded scheduling decision.
type Step struct {
	Tid      int8   // thread chosen
	Choice   int8   // index in the canonical enabled order
	NEnabled int8   // number of enabled threads
	CurEn    bool   // the previously running thread was still enabled (choice 0 = continue it)
	Kind     Kind   // operation the chosen thread performs
	Res      uint32 // resource id (first-touch order)
	Tag      uint32 // harness tag of the op (call-outs)
	Mask     uint32 // enabled thread mask
	Key      uint64 // HB state key after this step
}

var (
	active    bool
	aborting  bool
	baton     int32 = -1
	current   int32
	nthreads  int32
	threads   [MaxThreads]thread
	resTab    [MaxRes]resState
	nres      uint32
	steps     [MaxSteps]Step
	nsteps    int32
	prefix    [MaxSteps]int8
	prefixMsk [MaxSteps]uint32
	nprefix   int32
	horizon   int32 = MaxSteps - 8
	live      int32 // controlled goroutines not yet finished or abandoned (norace accounting)
	execDone  = make(chan struct{}, 1)

	// outcome of the execution
	exDeadlock   bool
	exHorizon    bool
	exNondet     bool
	exNondetStep int32
	exPanic      interface{}
	exPanicStack string
	exPanicTid   int32
	exUnsupp     string

	// hbPrune, when non-nil, is consulted after every step beyond the prefix with the HB key of the
	// prefix executed so far; returning true stops branching below this point (explore.go).
	hbSeen   *keySet
	prunedAt int32
	hbPrune  bool
	costP    uint8 // preemptions spent so far in this execution
	costE    uint8 // environment deviations spent so far

	// leaked counts goroutines abandoned by fatal outcomes (reported in evidence).
	leaked int
)

// Active reports whether a controlled execution is running.
//
//go:norace
func Active() bool { return active }

// Current returns the id of the running controlled thread.
//
//go:norace
func Current() int { return int(current) }

//go:norace
//go:noinline
func loadBaton() int32 { return baton }

//go:norace
//go:noinline
func storeBaton(v int32) { baton = v }

//go:norace
func mix(h, v uint64) uint64 {
	h ^= v + 0x9e3779b97f4a7c15 + (h << 6) + (h >> 2)
	h *= 0xff51afd7ed558ccd
	h ^= h >> 33

	return h
}

// resID maps an address to a per-execution resource id in first-touch order.
//
//go:norace
func resID(p unsafe.Pointer) uint32 {
	if p == nil {
		return 0
	}

	for i := uint32(1); i <= nres; i++ {
		if resTab[i].ptr == p {
			return i
		}
	}

	if nres+1 >= MaxRes {
		exUnsupp = "resource table overflow"
		return MaxRes - 1
	}

	nres++
	resTab[nres] = resState{ptr: p}

	return nres
}

//go:norace
func enabled(t *thread, tid int32) bool {
	if t.state != tsParked {
		return false
	}

	switch t.kind {
	case KLock:
		return *t.stp == 0
	case KRLock:
		return *t.stp >= 0
	case KRecv:
		if t.chp == nil {
			return false // nil channel: blocks forever
		}

		return chClosed(t.chp) || chLen(t.chp) > 0
	case KSend:
		if t.chp == nil {
			return false
		}

		return chClosed(t.chp) || chLen(t.chp) < chCap(t.chp)
	case KJoin, KWGWait:
		if t.kind == KWGWait {
			return *t.stp == 0
		}

		if t.joinTid >= 0 {
			return threads[t.joinTid].state == tsDone
		}

		for i := int32(0); i < nthreads; i++ {
			if i != tid && threads[i].state != tsDone {
				return false
			}
		}

		return true
	case KPoll:
		return uint32(nsteps) > t.stamp
	}

	return true
}

// schedule picks the next thread to run. Called by the thread that just parked (or finished).
//
//go:norace
func schedule() {
	me := current

	var (
		order [MaxThreads]int8
		n     int8
		mask  uint32
	)

	curEn := enabled(&threads[me], me)
	if curEn {
		order[0] = int8(me)
		n = 1
		mask |= 1 << uint(me)
	}

	for i := int32(0); i < nthreads; i++ {
		if i == me {
			continue
		}

		if enabled(&threads[i], i) {
			order[n] = int8(i)
			n++
			mask |= 1 << uint(i)
		}
	}

	if n == 0 {
		alldone := true

		for i := int32(0); i < nthreads; i++ {
			if threads[i].state != tsDone {
				alldone = false
			}
		}

		if alldone {
			storeBaton(-2)
			return
		}

		// Only pollers left, or nobody: deadlock.
		exDeadlock = true
		fatalOutcome()

		return
	}

	if nsteps >= horizon {
		exHorizon = true
		fatalOutcome()

		return
	}

	choice := int8(0)

	if nsteps < nprefix {
		choice = prefix[nsteps]
		if prefixMsk[nsteps] != 0 && prefixMsk[nsteps] != mask|boolBit(curEn) {
			exNondet = true
			exNondetStep = nsteps
			fatalOutcome()

			return
		}

		if choice >= n {
			exNondet = true
			exNondetStep = nsteps
			fatalOutcome()

			return
		}
	}

	chosen := int32(order[choice])
	t := &threads[chosen]

	// HB hashing of the event about to execute.
	var h uint64

	r := &resTab[t.res]
	h = mix(uint64(chosen)<<32|uint64(t.nops), uint64(t.kind)<<32|uint64(t.res))
	h = mix(h, uint64(t.tag))
	h = mix(h, t.hash)
	h = mix(h, r.lastW)

	if t.res != 0 {
		if isWrite(t.kind) {
			h = mix(h, r.readsAcc)
			r.lastW = h
			r.readsAcc = 0
		} else {
			r.readsAcc += h
		}
	}

	t.hash = h
	t.nops++

	var key uint64
	for i := int32(0); i < nthreads; i++ {
		key = mix(key, threads[i].hash+doneBit(threads[i].state))
	}

	steps[nsteps] = Step{
		Tid: int8(chosen), Choice: choice, NEnabled: n, CurEn: curEn, Kind: t.kind, Res: t.res, Tag: t.tag,
		Mask: mask | boolBit(curEn), Key: key,
	}
	nsteps++

	if t.kind != KEnv && curEn && choice > 0 {
		costP++
	}

	if hbSeen != nil && prunedAt < 0 && nsteps >= nprefix {
		// the future also depends on who is running (continuing it is free) and on what was spent
		if hbSeen.insert(mix(key, uint64(chosen)+1), costP+16*costE) && hbPrune {
			prunedAt = nsteps
		}
	}

	t.state = tsRunning
	current = chosen
	storeBaton(chosen)
}

//go:norace
func doneBit(st uint8) uint64 {
	if st == tsDone {
		return 1
	}

	return 0
}

//go:norace
func boolBit(b bool) uint32 {
	if b {
		return 1 << 31
	}

	return 0
}

// fatalOutcome ends the execution abnormally: the remaining goroutines cannot be unwound safely
// (they may hold real locks), so they are abandoned and the explorer is released.
//
//go:norace
func fatalOutcome() {
	aborting = true

	storeBaton(-3)
}

//go:norace
func waitBaton(me int32) {
	for {
		b := loadBaton()
		if b == me {
			return
		}

		if b == -3 {
			// Execution abandoned: park this goroutine forever without burning CPU.
			parkForever()
		}

		runtime.Gosched()
	}
}

var never = make(chan struct{})

func parkForever() {
	leakedInc()
	threadGone()
	<-never
}

// threadGone accounts for a finished (or abandoned) controlled goroutine; the last one releases the
// explorer. The counter is invisible to the race detector; the single channel send only creates an
// edge from the last thread to the explorer, which waits for nothing else.
func threadGone() {
	if decLive() == 0 {
		execDone <- struct{}{}
	}
}

//go:norace
func decLive() int32 { live--; return live }

//go:norace
func incLive() { live++ }

//go:norace
func leakedInc() { leaked++ }

// Point announces the next operation of the running thread and yields to the scheduler.
// It returns when the thread has been chosen to perform the operation.
//
//go:norace
func Point(kind Kind, res unsafe.Pointer) {
	if !active {
		return
	}

	pointFull(kind, res, nil, nil, 0)
}

// PointTag is Point with a harness tag that becomes part of the recorded step.
//
//go:norace
func PointTag(kind Kind, res unsafe.Pointer, tag uint32) {
	if !active {
		return
	}

	pointFull(kind, res, nil, nil, tag)
}

// PointLock announces a blocking acquire whose enabledness is given by the state word
// (0 free, -1 write-locked, n>0 readers).
//
//go:norace
func PointLock(kind Kind, res unsafe.Pointer, st *int32) {
	if !active {
		return
	}

	pointFull(kind, res, st, nil, 0)
}

//go:norace
func pointFull(kind Kind, res unsafe.Pointer, st *int32, chp unsafe.Pointer, tag uint32) {
	if aborting {
		return
	}

	// While the execution has a single thread (set-up before the first spawn, sequential cells) there is nothing to
	// choose and nothing to order: an operation that is enabled just proceeds, unrecorded. A blocking one (lock held,
	// channel, join, poll) takes the full path, where "no enabled thread" is reported as a deadlock.
	if nthreads == 1 && soloSteps < soloMax {
		switch kind {
		case KLock:
			if *st == 0 {
				soloSteps++
				return
			}
		case KRLock:
			if *st >= 0 {
				soloSteps++
				return
			}
		case KRecv, KSend, KJoin, KWGWait, KPoll, KEnv:
		default:
			soloSteps++
			return
		}
	}

	me := current
	t := &threads[me]
	t.kind = kind
	t.res = resID(res)
	t.stp = st
	t.chp = chp
	t.tag = tag
	t.stamp = uint32(nsteps)
	t.joinTid = -1
	t.state = tsParked

	schedule()
	waitBaton(me)
}

// Join blocks the running thread until every other controlled thread has finished.
//
//go:norace
func Join() {
	if !active {
		return
	}

	pointFull(KJoin, nil, nil, nil, 0)
}

// Yield is a pure scheduling point.
//
//go:norace
func Yield() {
	if !active {
		return
	}

	pointFull(KYield, nil, nil, nil, 0)
}

// Poll is used by rewritten select statements and other polling waits: the thread becomes
// enabled again only after another thread has taken a step.
//
//go:norace
func Poll() {
	if !active {
		runtime.Gosched()
		return
	}

	pointFull(KPoll, nil, nil, nil, 0)
}

// SpinHook, when set, is called each time a try-lock fails under the scheduler: waiting costs time (the virtual
// clock registers itself here).
var SpinHook func()

// Spin is called by the shims when a TryLock / TryRLock fails: a caller that loops on a try-lock is waiting. Time
// passes (SpinHook) and the thread is parked until some other thread has taken a step, like a poll.
//
//go:norace
func Spin() {
	if !active {
		return
	}

	if SpinHook != nil {
		SpinHook()
	}

	pointFull(KPoll, nil, nil, nil, 0)
}

// daemonFuncs lists enclosing functions whose go statements start background daemons
// (janitor, items-count reporter). They are never started in instrumented builds; the harnesses
// invoke the janitor's own cleanup function as an explicit operation instead (DESIGN §2.1).
var daemonFuncs = map[string]bool{"NewTrait": true}

// Goroutines started while a cache instance is being constructed are its daemons (janitor, items-count
// reporter), wherever in the constructor call tree the go statement sits. Harnesses bracket constructor
// calls with Construct.
var nConstructing int32

//go:norace
func constructing() bool { return nConstructing > 0 }

//go:norace
func setConstructing(d int32) { nConstructing += d }

// Construct runs a constructor; goroutines it starts are treated as daemons.
func Construct(f func()) {
	setConstructing(1)
	defer setConstructing(-1)

	f()
}

// RunDaemons makes daemon goroutines (janitor, items-count reporter) start for real. They must never run
// while a controlled execution is active.
var RunDaemons bool

// Go starts fn as a controlled thread (or as a plain goroutine when no execution is active).
// encl is the name of the function containing the rewritten go statement.
func Go(encl string, fn func()) {
	if daemonFuncs[encl] || constructing() {
		if RunDaemons {
			go fn() // real goroutine, real timers; only used by harnesses that run no controlled execution
		}

		return
	}

	if !running() {
		go fn()
		return
	}

	spawn(encl, fn)
	// The new goroutine may run before its creator continues.
	pointFull(KYield, nil, nil, nil, 0)
}

func spawn(name string, fn func()) int32 {
	tid := allocThread(name)
	if tid < 0 {
		return -1
	}

	incLive()

	go threadMain(tid, fn)

	return tid
}

//go:norace
func allocThread(name string) int32 {
	if nthreads >= MaxThreads {
		exUnsupp = "too many threads"
		return -1
	}

	tid := nthreads
	nthreads++
	threads[tid] = thread{state: tsParked, kind: KStart, name: name, joinTid: -1}

	return tid
}

func threadMain(tid int32, fn func()) {
	waitBaton(tid)

	defer func() {
		if r := recover(); r != nil {
			notePanic(tid, r)
		}

		threadExit(tid)
		threadGone()
	}()

	fn()
}

func notePanic(tid int32, r interface{}) {
	buf := make([]byte, 1<<14)
	buf = buf[:runtime.Stack(buf, false)]
	setPanic(tid, r, string(buf))
}

//go:norace
func setPanic(tid int32, r interface{}, st string) {
	if exPanic == nil {
		exPanic = r
		exPanicStack = st
		exPanicTid = tid
	}
}

//go:norace
func threadExit(tid int32) {
	if aborting {
		return
	}

	threads[tid].state = tsDone
	current = tid

	schedule()
}

// SpawnThread starts a harness thread from inside an execution and returns its id.
func SpawnThread(name string, fn func()) int {
	return int(spawn(name, fn))
}

// JoinThread blocks until the given thread is done.
//
//go:norace
func JoinThread(tid int) {
	if !active || aborting {
		return
	}

	me := current
	t := &threads[me]
	t.kind = KJoin
	t.res = 0
	t.stp = nil
	t.tag = 0
	t.joinTid = int32(tid)
	t.state = tsParked

	schedule()
	waitBaton(me)
}

// Result describes one finished execution.
type Result struct {
	Steps      []Step
	Deadlock   bool
	Horizon    bool
	Nondet     bool
	NondetStep int
	Panic      interface{}
	PanicStack string
	PanicTid   int
	Unsupp     string
	PrunedAt   int
	Threads    []string
	Blocked    []string
}

// Fatal reports whether the execution could not run to completion.
func (r *Result) Fatal() bool { return r.Deadlock || r.Horizon || r.Nondet }

// Choices returns the choice list of the execution.
func (r *Result) Choices() []int8 {
	c := make([]int8, len(r.Steps))
	for i, s := range r.Steps {
		c[i] = s.Choice
	}

	return c
}

// Run executes body as thread 0 under the scheduler, replaying the given choice prefix (and,
// when msk is non-nil, verifying the enabled sets recorded for the prefix) and then taking the
// default choice (index 0: continue the running thread if enabled, else the lowest enabled id).
func Run(pfx []int8, msk []uint32, seen *keySet, prune bool, body func()) *Result {
	resetExec()

	hbPrune = prune

	nprefix = int32(len(pfx))
	for i, c := range pfx {
		prefix[i] = c
		prefixMsk[i] = 0

		if msk != nil && i < len(msk) {
			prefixMsk[i] = msk[i]
		}
	}

	hbSeen = seen
	setActive(true)

	tid := allocThread("main")
	threads[tid].state = tsRunning
	current = tid

	incLive()
	storeBaton(tid)

	go threadMain(tid, body)

	<-execDone

	setActive(false)
	r := &Result{
		Deadlock: exDeadlock, Horizon: exHorizon, Nondet: exNondet, NondetStep: int(exNondetStep),
		Panic: exPanic, PanicStack: exPanicStack, PanicTid: int(exPanicTid), Unsupp: exUnsupp, PrunedAt: int(prunedAt),
	}
	r.Steps = make([]Step, nsteps)
	copy(r.Steps, steps[:nsteps])

	for i := int32(0); i < nthreads; i++ {
		r.Threads = append(r.Threads, threads[i].name)

		if threads[i].state == tsParked {
			r.Blocked = append(r.Blocked, fmt.Sprintf("t%d(%s) blocked at %s res#%d", i, threads[i].name, threads[i].kind, threads[i].res))
		}
	}

	return r
}

//go:norace
func setActive(v bool) { active = v }

// execID numbers the executions of this process (state that must not leak from one execution into the next, such as
// the contents of a sync.Pool, is keyed by it).
var execID uint64

// ExecID returns the number of the current execution.
//
//go:norace
func ExecID() uint64 { return execID }

// soloSteps counts the scheduling points passed on the single-thread fast path of the current execution; beyond
// soloMax the full path (with its step horizon) takes over, so that an endless loop still ends.
var soloSteps int64

const soloMax = 1 << 26

//go:norace
func resetExec() {
	execID++
	soloSteps = 0
	active = false
	aborting = false
	baton = -1
	current = 0
	nthreads = 0
	nres = 0
	nsteps = 0
	nprefix = 0
	live = 0
	prunedAt = -1
	costP, costE = 0, 0
	exDeadlock, exHorizon, exNondet, exPanic, exPanicStack, exUnsupp = false, false, false, nil, "", ""
	exNondetStep = 0

	for i := range threads {
		threads[i] = thread{}
	}
}

// SetHorizon sets the step horizon of executions.
func SetHorizon(n int) {
	if n > MaxSteps-8 {
		n = MaxSteps - 8
	}

	horizon = int32(n)
}

// Leaked returns the number of goroutines abandoned by fatal outcomes so far.
func Leaked() int { return leaked }

// FormatTrace renders the recorded steps.
func FormatTrace(r *Result) string {
	var sb strings.Builder

	for i, s := range r.Steps {
		name := ""
		if int(s.Tid) < len(r.Threads) {
			name = r.Threads[s.Tid]
		}

		fmt.Fprintf(&sb, "%4d t%d(%s) %s res#%d tag=%d choice=%d/%d\n", i, s.Tid, name, s.Kind, s.Res, s.Tag, s.Choice, s.NEnabled)
	}

	for _, b := range r.Blocked {
		sb.WriteString("  " + b + "\n")
	}

	return sb.String()
}

// Fatalf aborts the process with a harness error (exit 2): never a VIOLATION.
func Fatalf(format string, a ...interface{}) {
	fmt.Fprintf(os.Stderr, "HARNESS-ERROR: "+format+"\n", a...)
	os.Exit(2)
}
