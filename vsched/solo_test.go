package vsched_test

import (
	"testing"

	ssync "verif/shim/sync"
	"verif/vsched"
)

// A lock left held by an earlier call of the only thread is reported as a deadlock (single-thread fast path
// must not swallow it), and uncontended locking does not produce steps.
func TestSoloDeadlock(t *testing.T) {
	var mu ssync.RWMutex

	r := vsched.Replay(nil, func() {
		mu.RLock()
		mu.RUnlock()
		mu.RLock() // leaked
	})
	if r.Deadlock || len(r.Steps) != 0 {
		t.Fatalf("unexpected: deadlock=%v steps=%d", r.Deadlock, len(r.Steps))
	}

	r = vsched.Replay(nil, func() { mu.Lock() })
	if !r.Deadlock {
		t.Fatalf("write lock on a read-locked mutex must be a deadlock, got %+v", r)
	}
}
