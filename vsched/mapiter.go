package vsched

import (
	"fmt"
	"sort"
)

// MapOrderDesc makes rewritten map ranges iterate in descending instead of ascending key order.
// Go leaves map iteration order unspecified; instrumented builds own it so that executions are
// reproducible, and harnesses flip this switch (or enable MapOrderExplore) to cover both directions.
var MapOrderDesc bool

// MapOrderExplore turns the direction of every map range into an environment choice of the explorer.
var MapOrderExplore bool

// MapIterator replaces `for k, v := range m` in instrumented code. It visits keys in sorted order with a
// cursor: an entry deleted before it is reached is not produced, an entry inserted ahead of the
// cursor is produced, one inserted behind it is skipped - all of which the Go specification allows.
type MapIterator[K comparable, V any] struct {
	m       map[K]V
	last    K
	started bool
	desc    bool
	key     K
	val     V
}

// MapIter starts an iteration.
func MapIter[M ~map[K]V, K comparable, V any](m M) *MapIterator[K, V] {
	it := &MapIterator[K, V]{m: m, desc: MapOrderDesc}

	if MapOrderExplore && len(m) > 1 {
		it.desc = Choose(2, 0x3a) == 1
	}

	return it
}

func lessAny(a, b any) bool {
	switch x := a.(type) {
	case string:
		return x < b.(string)
	case int:
		return x < b.(int)
	case int64:
		return x < b.(int64)
	case uint64:
		return x < b.(uint64)
	case uint32:
		return x < b.(uint32)
	case int32:
		return x < b.(int32)
	case uint:
		return x < b.(uint)
	case uint8:
		return x < b.(uint8)
	case uint16:
		return x < b.(uint16)
	case float64:
		return x < b.(float64)
	}

	return fmt.Sprint(a) < fmt.Sprint(b)
}

// Next advances the cursor; it reports false when no key beyond the cursor is left.
func (it *MapIterator[K, V]) Next() bool {
	var (
		best  K
		found bool
	)

	for k := range it.m {
		if it.started {
			if it.desc {
				if !lessAny(k, it.last) {
					continue
				}
			} else if !lessAny(it.last, k) {
				continue
			}
		}

		if !found {
			best, found = k, true
			continue
		}

		if it.desc {
			if lessAny(best, k) {
				best = k
			}
		} else if lessAny(k, best) {
			best = k
		}
	}

	if !found {
		return false
	}

	it.key, it.val = best, it.m[best]
	it.last, it.started = best, true

	return true
}

// Key returns the current key.
func (it *MapIterator[K, V]) Key() K { return it.key }

// Value returns the current value.
func (it *MapIterator[K, V]) Value() V { return it.val }

var _ = sort.Strings
