package vsched_test

import (
	"testing"
	"time"

	ssync "verif/shim/sync"
	"verif/vsched"
)

// Two threads do a non-atomic read-modify-write split over two critical sections: the lost update
// needs one preemption.
func TestLostUpdate(t *testing.T) {
	for _, bound := range []int{0, 1, 2, -1} {
		var x int
		lost := 0
		outcomes := map[int]int{}

		body := func() {
			x = 0
			var mu ssync.Mutex
			w := func() {
				mu.Lock()
				v := x
				mu.Unlock()
				mu.Lock()
				x = v + 1
				mu.Unlock()
			}
			vsched.SpawnThread("a", w)
			vsched.SpawnThread("b", w)
			vsched.Join()
		}
		start := time.Now()
		st := vsched.Explore(vsched.Options{PreemptionBound: bound, EnvBound: -1, HBCache: bound < 0}, body, func(r *vsched.Result) bool {
			if r.Fatal() {
				t.Fatalf("fatal: %+v\n%s", r, vsched.FormatTrace(r))
			}
			outcomes[x]++
			if x != 2 {
				lost++
			}
			return true
		})
		t.Logf("bound=%d execs=%d transitions=%d pruned=%d hb=%d outcomes=%v lost=%d in %v", bound, st.Execs, st.Transitions, st.Pruned, st.HBStates, outcomes, lost, time.Since(start))
		if bound == 0 && lost != 0 {
			t.Fatal("lost update without preemption?")
		}
		if bound != 0 && lost == 0 {
			t.Fatal("lost update not found")
		}
	}
}

func TestDeadlock(t *testing.T) {
	found := false
	body := func() {
		var a, b ssync.Mutex
		vsched.SpawnThread("ab", func() { a.Lock(); b.Lock(); b.Unlock(); a.Unlock() })
		vsched.SpawnThread("ba", func() { b.Lock(); a.Lock(); a.Unlock(); b.Unlock() })
		vsched.Join()
	}
	st := vsched.Explore(vsched.Options{PreemptionBound: 2, EnvBound: -1}, body, func(r *vsched.Result) bool {
		if r.Deadlock {
			found = true
		}
		return true
	})
	t.Logf("execs=%d fatal=%d leaked=%d", st.Execs, st.Fatal, vsched.Leaked())
	if !found {
		t.Fatal("deadlock not found")
	}
}

func TestChanClose(t *testing.T) {
	n := 0
	body := func() {
		ch := make(chan struct{})
		got := false
		vsched.SpawnThread("w", func() { vsched.Recv(ch); got = true })
		vsched.SpawnThread("c", func() { vsched.Close(ch) })
		vsched.Join()
		if !got {
			panic("not received")
		}
	}
	st := vsched.Explore(vsched.Options{PreemptionBound: -1, EnvBound: -1}, body, func(r *vsched.Result) bool {
		if r.Fatal() || r.Panic != nil {
			t.Fatalf("bad: %+v", r)
		}
		n++
		return true
	})
	t.Logf("execs=%d", st.Execs)
}
