package vsched

import "unsafe"

// Channel state is read straight from the runtime's hchan header (qcount, dataqsiz at words 0 and 1,
// closed as the uint32 at byte 28), so that enabledness of a parked receiver/sender can be evaluated
// from norace code without any side table. The layout is verified at start-up (init below).

//go:norace
func chLen(p unsafe.Pointer) int { return int(*(*uint)(p)) }

//go:norace
func chCap(p unsafe.Pointer) int { return int(*(*uint)(unsafe.Add(p, unsafe.Sizeof(uint(0))))) }

//go:norace
func chClosed(p unsafe.Pointer) bool { return *(*uint32)(unsafe.Add(p, 28)) != 0 }

func init() {
	c := make(chan int, 3)
	p := *(*unsafe.Pointer)(unsafe.Pointer(&c))

	ok := chLen(p) == 0 && chCap(p) == 3 && !chClosed(p)
	c <- 1
	c <- 2
	ok = ok && chLen(p) == 2
	close(c)
	ok = ok && chClosed(p) && chLen(p) == 2

	u := make(chan struct{})
	q := *(*unsafe.Pointer)(unsafe.Pointer(&u))
	ok = ok && chCap(q) == 0 && !chClosed(q)
	close(u)
	ok = ok && chClosed(q)

	if !ok {
		Fatalf("runtime.hchan layout differs from what vsched expects; channel shims cannot work with this toolchain")
	}
}

// Choose is an environment choice point: it returns a value in [0,n) decided by the explorer
// (default 0). It does not yield the processor.
//
//go:norace
func Choose(n int, tag uint32) int {
	if !active || aborting || n <= 1 {
		return 0
	}

	if nsteps >= horizon {
		exHorizon = true
		me := current
		fatalOutcome()
		waitBaton(me)
	}

	choice := int8(0)

	if nsteps < nprefix {
		choice = prefix[nsteps]
		if int(choice) >= n {
			exNondet = true
			exNondetStep = nsteps
			me := current
			fatalOutcome()
			waitBaton(me)
		}
	}

	t := &threads[current]
	h := mix(uint64(current)<<32|uint64(t.nops), uint64(KEnv)<<32|uint64(tag))
	h = mix(h, t.hash)
	h = mix(h, uint64(choice))
	t.hash = h
	t.nops++

	var key uint64
	for i := int32(0); i < nthreads; i++ {
		key = mix(key, threads[i].hash+doneBit(threads[i].state))
	}

	steps[nsteps] = Step{Tid: int8(current), Choice: choice, NEnabled: int8(n), Kind: KEnv, Tag: tag, Key: key}
	nsteps++

	if choice > 0 {
		costE++
	}

	if hbSeen != nil && prunedAt < 0 && nsteps >= nprefix {
		if hbSeen.insert(mix(key, uint64(current)+1), costP+16*costE) && hbPrune {
			prunedAt = nsteps
		}
	}

	return int(choice)
}

// SelectPick decides which case of a blocking select runs under the scheduler: -1 when none is ready (the caller
// polls and asks again), the only ready one, or - several being ready, where the runtime would pick at random - an
// environment choice among them (default: the first in source order). Bit i of sendMask marks case i as a send.
//
//go:norace
func SelectPick(sendMask uint32, chans ...interface{}) int {
	var ready [32]int8

	n := 0

	for i := range chans {
		p := (*[2]unsafe.Pointer)(unsafe.Pointer(&chans[i]))[1]
		if p == nil || i >= 32 {
			continue
		}

		ok := chClosed(p)
		if !ok {
			if sendMask&(1<<uint(i)) != 0 {
				ok = chLen(p) < chCap(p)
			} else {
				ok = chLen(p) > 0
			}
		}

		if ok {
			ready[n] = int8(i)
			n++
		}
	}

	switch n {
	case 0:
		return -1
	case 1:
		return int(ready[0])
	}

	return int(ready[Choose(n, 0x5e1ec7)])
}

// MakeChan replaces make(chan T, n) in instrumented code (currently unused by the rewriter).
func MakeChan[T any](n int) chan T {
	return make(chan T, n)
}

// Recv replaces <-ch.
func Recv[T any](ch <-chan T) T {
	v, _ := Recv2(ch)
	return v
}

// Recv2 replaces v, ok := <-ch.
func Recv2[T any](ch <-chan T) (T, bool) {
	if !running() {
		v, ok := <-ch
		return v, ok
	}

	p := *(*unsafe.Pointer)(unsafe.Pointer(&ch))
	pointFull(KRecv, p, nil, p, 0)

	select {
	case v, ok := <-ch:
		return v, ok
	default:
	}

	noteUnsupp("receive would block although the channel looked ready (unbuffered rendezvous is not supported under the scheduler)")

	var zero T

	return zero, false
}

// running reports whether a controlled execution is active and not abandoned (read invisibly to the
// race detector: the explorer resets these flags between executions).
//
//go:norace
func running() bool { return active && !aborting }

//go:norace
func noteUnsupp(s string) {
	if exUnsupp == "" {
		exUnsupp = s
	}
}

// Send replaces ch <- v. Only buffered channels are supported under the scheduler.
func Send[T any](ch chan<- T, v T) {
	if !running() {
		ch <- v
		return
	}

	p := *(*unsafe.Pointer)(unsafe.Pointer(&ch))
	pointFull(KSend, p, nil, p, 0)

	select {
	case ch <- v: // panics on a closed channel exactly as the original program would
		return
	default:
	}

	noteUnsupp("send would block although the channel looked ready (unbuffered channels are not supported under the scheduler)")
}

// Close replaces close(ch).
func Close[T any](ch chan<- T) {
	if running() {
		p := *(*unsafe.Pointer)(unsafe.Pointer(&ch))
		pointFull(KClose, p, nil, nil, 0)
	}

	close(ch) // closing a closed or nil channel panics exactly as in the original program
}
