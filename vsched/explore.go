package vsched

import (
	"time"
)

// keySet is an open-addressing map from 64-bit state keys to the smallest deviation cost with which the
// state has been expanded, safe to use from norace code (no Go maps, no growth while an execution runs).
type keySet struct {
	tab  []uint64
	cost []uint8
	mask uint64
	n    int
	full bool
}

func newKeySet(bits uint) *keySet {
	return &keySet{tab: make([]uint64, 1<<bits), cost: make([]uint8, 1<<bits), mask: 1<<bits - 1}
}

// insert records that state k was reached with the given cost. It reports whether the state had
// already been expanded with a cost that is not larger (so that expanding it again cannot reach
// anything new within the bounds).
//
//go:norace
func (s *keySet) insert(k uint64, c uint8) bool {
	if k == 0 {
		k = 1
	}

	i := k & s.mask
	for {
		v := s.tab[i]
		if v == k {
			if s.cost[i] <= c {
				return true
			}

			s.cost[i] = c

			return false
		}

		if v == 0 {
			if s.n*4 >= len(s.tab)*3 {
				// table is at its load limit (and at its size cap): remember nothing new
				s.full = true
				return false
			}

			s.tab[i] = k
			s.cost[i] = c
			s.n++

			return false
		}

		i = (i + 1) & s.mask
	}
}

// grow doubles the table when it is more than half full (called between executions only).
func (s *keySet) grow() {
	// capped at 2^24 slots (150 MB): beyond that new states are simply not remembered any more, which costs
	// pruning power but never soundness
	if s.n*2 < len(s.tab) || len(s.tab) >= 1<<24 {
		return
	}

	old, oldc := s.tab, s.cost
	s.tab = make([]uint64, len(old)*2)
	s.cost = make([]uint8, len(old)*2)
	s.mask = uint64(len(s.tab) - 1)
	s.n = 0

	for i, k := range old {
		if k != 0 {
			s.insert(k, oldc[i])
		}
	}
}

// Options bound an exploration.
type Options struct {
	// PreemptionBound limits the number of switches away from a still-enabled thread; <0 = unbounded.
	PreemptionBound int
	// EnvBound limits the number of non-default environment answers (Choose); <0 = unbounded.
	EnvBound int
	// HBCache prunes prefixes whose happens-before key (together with the running thread) was expanded
	// before with no more deviations spent: the subtree below such a prefix is a subset of the one already
	// explored. Sound for bounded and unbounded search as long as all inter-thread communication passes
	// through hooked operations (DESIGN §2.2).
	HBCache bool
	// MaxExecs caps the number of executions (0 = no cap). Hitting it makes the result non-exhaustive.
	MaxExecs int
	// Deadline caps wall time (zero = none). Hitting it makes the result non-exhaustive.
	Deadline time.Time
	// Horizon is the step horizon per execution (0 = default).
	Horizon int
}

// Stats describes what an exploration covered.
type Stats struct {
	Execs       int
	Transitions int
	MaxDepth    int
	Pruned      int
	HBStates    int
	Exhaustive  bool
	CapHit      string
	Fatal       int
}

// Add accumulates other into s.
func (s *Stats) Add(o Stats) {
	s.Execs += o.Execs
	s.Transitions += o.Transitions
	s.Pruned += o.Pruned
	s.HBStates += o.HBStates
	s.Fatal += o.Fatal

	if o.MaxDepth > s.MaxDepth {
		s.MaxDepth = o.MaxDepth
	}

	if !o.Exhaustive {
		s.Exhaustive = false

		if s.CapHit == "" {
			s.CapHit = o.CapHit
		}
	}
}

// Explore enumerates schedules of body depth-first. check is called after every execution with its
// result; returning false stops the exploration (Exhaustive stays false in that case).
func Explore(opt Options, body func(), check func(r *Result) bool) Stats {
	st := Stats{Exhaustive: true}

	if opt.Horizon > 0 {
		SetHorizon(opt.Horizon)
	} else {
		SetHorizon(MaxSteps)
	}

	prune := opt.HBCache
	seen := newKeySet(16)

	var (
		pfx []int8
		msk []uint32
	)

	for {
		seen.grow()

		r := Run(pfx, msk, seen, prune, body)
		st.Execs++
		st.Transitions += len(r.Steps)

		if len(r.Steps) > st.MaxDepth {
			st.MaxDepth = len(r.Steps)
		}

		if r.Fatal() {
			st.Fatal++
		}

		if r.Horizon {
			// the execution was cut at the step horizon (an unbounded wait: spinning, polling): what lies behind the
			// cut was not explored, the result must not be called exhaustive
			st.Exhaustive = false
			if st.CapHit == "" {
				st.CapHit = "step horizon"
			}
		}

		if r.Nondet {
			Fatalf("NONDETERMINISM: replay of a recorded prefix diverged at step %d\n%s", r.NondetStep, FormatTrace(r))
		}

		if r.Unsupp != "" {
			Fatalf("unsupported: %s", r.Unsupp)
		}

		if !check(r) {
			st.Exhaustive = false
			st.CapHit = "stopped by oracle"

			break
		}

		limit := len(r.Steps)
		if r.PrunedAt >= 0 && r.PrunedAt < limit {
			limit = r.PrunedAt
			st.Pruned++
		}

		// Cumulative deviation costs.
		next := -1
		alt := int8(0)

		pc := make([]int, limit+1)
		ec := make([]int, limit+1)

		for i := 0; i < limit; i++ {
			s := r.Steps[i]
			pc[i+1], ec[i+1] = pc[i], ec[i]

			if s.Kind == KEnv {
				if s.Choice > 0 {
					ec[i+1]++
				}
			} else if s.CurEn && s.Choice > 0 {
				pc[i+1]++
			}
		}

		for i := limit - 1; i >= 0 && next < 0; i-- {
			s := r.Steps[i]
			if s.Choice+1 >= s.NEnabled {
				continue
			}

			p, e := pc[i], ec[i]
			if s.Kind == KEnv {
				e++
			} else if s.CurEn {
				p++
			}

			if opt.PreemptionBound >= 0 && p > opt.PreemptionBound {
				continue
			}

			if opt.EnvBound >= 0 && e > opt.EnvBound {
				continue
			}

			next = i
			alt = s.Choice + 1
		}

		if next < 0 {
			break
		}

		pfx = append(pfx[:0], r.Choices()[:next]...)
		pfx = append(pfx, alt)
		msk = msk[:0]

		for i := 0; i <= next; i++ {
			msk = append(msk, r.Steps[i].Mask)
		}

		if opt.MaxExecs > 0 && st.Execs >= opt.MaxExecs {
			st.Exhaustive = false
			st.CapHit = "max executions"

			break
		}

		if !opt.Deadline.IsZero() && st.Execs%64 == 0 && time.Now().After(opt.Deadline) {
			st.Exhaustive = false
			st.CapHit = "deadline"

			break
		}
	}

	st.HBStates = seen.n

	return st
}

// Replay runs body once with exactly the given choices.
func Replay(choices []int8, body func()) *Result {
	SetHorizon(MaxSteps)

	return Run(choices, nil, nil, false, body)
}
