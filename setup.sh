#!/bin/bash
# Builds the framework from files on disk only (offline) and warms Go's build cache.
set -e
cd "$(dirname "$0")"
export GOFLAGS=-mod=mod GOPROXY=off GOSUMDB=off GOTOOLCHAIN=local
mkdir -p bin evidence replays
go build -o bin/vinst ./cmd/vinst
T="$(mktemp -d /tmp/vsetup.XXXXXX)"
trap 'rm -rf "$T"' EXIT
./bin/vinst -src "${VERIF_REPO:-/repo}" -out "$T/ov" >/dev/null
go build -tags verif -overlay "$T/ov/overlay.json" -o "$T/vh" ./cmd/vh
go build -race -tags verif -overlay "$T/ov/overlay.json" -o "$T/vh-race" ./cmd/vh
echo "setup ok"
