#!/usr/bin/env python3
"""Generates MANIFEST.json from the table below (kept in one place so that it stays valid)."""
import json, subprocess

CHECKS = {}
def chk(pid, text, note, technique, design):
    CHECKS[pid] = dict(text=text, note=note, technique=technique, design=design)

exec(open('manifest_table.py').read())

props = [json.loads(l)['id'] for l in open('properties.jsonl')]
checks = []
na = []
for pid in props:
    if pid in CHECKS:
        c = CHECKS[pid]
        checks.append({
            "property_id": pid,
            "quick_cmd": f"./check {pid} quick",
            "thorough_cmd": f"./check {pid} thorough",
            "evidence_file": f"/verif/evidence/{pid}.json",
            "replay_cmd_template": "./check replay {path}",
            "engine": "vsched",
            "level_claimed": {"category": "model_checking", "text": c['text'], "design_ref": c['design']},
            "level_note": c['note'],
            "technique": c['technique'],
        })
    else:
        na.append({"property_id": pid, "reason": NOT_YET.get(pid, "check not built yet; planned in DESIGN.md §3")})

hooks_commits = subprocess.run(["git","-C","/repo","log","--format=%H","--","verif_hooks.go"],capture_output=True,text=True).stdout.split()
m = {
  "version": 1,
  "setup_cmd": "./setup.sh",
  "hooks": {
    "guard": "verif",
    "enable": "go build -tags verif -overlay <tmp>/overlay.json (overlay produced by bin/vinst from /repo's working tree; /repo itself is never modified by a check)",
    "baseline_off_cmd": "cd /repo && GOFLAGS=-mod=mod GOPROXY=off GOSUMDB=off go test -json -vet=off -count=1 -timeout 25m ./...",
    "source_commits": hooks_commits,
    "add_only": True,
  },
  "engines": [
    {"name": "vsched", "path": "/verif/vsched", "serves_properties": sorted(CHECKS.keys()),
     "kind_free_text": "hand-written stateless model checker for Go: cooperative deterministic scheduler over shimmed sync/atomic/chan/time/rand operations of the real package (source-instrumented through a build overlay), depth-first enumeration of schedules and environment answers with preemption/deviation bounding and happens-before prefix caching; explicit-state BFS over operation sequences for sequential properties"},
  ],
  "checks": checks,
  "not_applicable": na,
  "notes": "All checks rebuild the instrumented harness from /repo's current working tree on every invocation (./check). known_findings.txt lists genuine defects recorded rather than repaired.",
}
json.dump(m, open('MANIFEST.json','w'), indent=1)
print("checks:", [c['property_id'] for c in checks], "n/a:", [n['property_id'] for n in na])
