#!/bin/bash
# Applies every seeded change in turn and runs the quick check of the property it breaks.
# Prints one line per seed: CAUGHT / MISSED. /repo itself is not touched: a scratch worktree of /repo's HEAD
# (outside /repo and /verif, removed at the end) stands in for it through VERIF_REPO; with SEEDALL_IN_REPO=1 the
# patch is applied to /repo instead and reverted straight afterwards.
cd /verif
WT="$(mktemp -d /tmp/seedall.XXXXXX)"; rmdir "$WT"
git -C /repo worktree add -q --detach "$WT" HEAD || exit 2
trap 'git -C /repo worktree remove --force "$WT" >/dev/null 2>&1' EXIT
for d in seeded/C*/; do
  s=$(basename $d); p=${s:0:3}
  # SEEDALL_FROM=<seed>: resume an interrupted run at that seed (directory order)
  if [ -n "${SEEDALL_FROM:-}" ] && [[ "$s" < "$SEEDALL_FROM" ]]; then continue; fi
  if [ "${SEEDALL_IN_REPO:-0}" = 1 ]; then
    git -C /repo apply /verif/$d/patch.diff || { echo "$s: PATCH DOES NOT APPLY"; continue; }
    ./check $p quick > "$WT.log" 2>&1; rc=$?
    git -C /repo checkout -- .
  else
    git -C "$WT" checkout -q -- . ; git -C "$WT" clean -fdq
    git -C "$WT" apply /verif/$d/patch.diff || { echo "$s: PATCH DOES NOT APPLY"; continue; }
    VERIF_REPO="$WT" ./check $p quick > "$WT.log" 2>&1; rc=$?
  fi
  if [ $rc -eq 1 ]; then echo "$s: CAUGHT by $p ($(grep -m1 'signature:' "$WT.log" | sed 's/ *signature: //'))"; else echo "$s: MISSED by $p (exit $rc)"; fi
  rm -f "$WT.log"
done
