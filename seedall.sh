#!/bin/bash
# Applies every seeded change in turn to /repo, runs the quick check of the property it breaks, reverts.
# Prints one line per seed: CAUGHT / MISSED.
cd /verif
for d in seeded/C*/; do
  s=$(basename $d); p=${s:0:3}
  git -C /repo apply /verif/$d/patch.diff || { echo "$s: PATCH DOES NOT APPLY"; continue; }
  ./check $p quick > /tmp/seedall.$s.log 2>&1; rc=$?
  git -C /repo checkout -- .
  if [ $rc -eq 1 ]; then echo "$s: CAUGHT by $p ($(grep -m1 'signature:' /tmp/seedall.$s.log | sed 's/ *signature: //'))"; else echo "$s: MISSED by $p (exit $rc)"; fi
  rm -f /tmp/seedall.$s.log
done
