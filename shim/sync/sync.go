// Package sync is the instrumented-build replacement of package sync. Every operation is a
// scheduling point of vsched followed by the real std operation, so semantics (and what the race
// detector sees) are the std ones; blocking is decided by a small state word kept next to the
// real primitive, and the real primitive is only ever called when it cannot block.
package sync

import (
	"fmt"
	"sort"
	stdsync "sync"
	"unsafe"

	"verif/vsched"
)

type (
	Cond   = stdsync.Cond
	Locker = stdsync.Locker
)

// Pool mirrors sync.Pool with a deterministic policy: last in, first out, nothing is ever dropped while an
// execution runs, and whatever an execution leaves behind is gone when the next one starts (the real Pool hands
// items around per P, drops them at GC and - in race builds - at random; none of that may leak into an exploration).
// Outside a controlled execution it keeps nothing at all, which sync.Pool permits.
type Pool struct {
	New func() interface{}

	mu    stdsync.Mutex
	items []interface{}
	exec  uint64
}

func (p *Pool) Get() interface{} {
	if vsched.Active() {
		vsched.Point(vsched.KAtomicW, unsafe.Pointer(p))

		p.mu.Lock()

		if p.exec != vsched.ExecID() {
			p.items, p.exec = nil, vsched.ExecID()
		}

		if n := len(p.items); n > 0 {
			x := p.items[n-1]
			p.items = p.items[:n-1]
			p.mu.Unlock()

			return x
		}

		p.mu.Unlock()
	}

	if p.New != nil {
		return p.New()
	}

	return nil
}

func (p *Pool) Put(x interface{}) {
	if x == nil || !vsched.Active() {
		return
	}

	vsched.Point(vsched.KAtomicW, unsafe.Pointer(p))

	p.mu.Lock()

	if p.exec != vsched.ExecID() {
		p.items, p.exec = nil, vsched.ExecID()
	}

	p.items = append(p.items, x)
	p.mu.Unlock()
}

func NewCond(l Locker) *Cond { return stdsync.NewCond(l) }

// Mutex mirrors sync.Mutex.
type Mutex struct {
	mu stdsync.Mutex
	st int32
}

//go:norace
func (m *Mutex) Lock() {
	if vsched.Active() {
		vsched.PointLock(vsched.KLock, unsafe.Pointer(m), &m.st)
		m.st = -1
	}

	m.mu.Lock()
}

//go:norace
func (m *Mutex) TryLock() bool {
	if vsched.Active() {
		vsched.Point(vsched.KUnlock, unsafe.Pointer(m))

		if m.st != 0 {
			vsched.Spin()
			return false
		}

		m.st = -1
	}

	return m.mu.TryLock()
}

//go:norace
func (m *Mutex) Unlock() {
	if vsched.Active() {
		vsched.Point(vsched.KUnlock, unsafe.Pointer(m))
		m.st = 0
	}

	m.mu.Unlock()
}

// RWMutex mirrors sync.RWMutex. Writer preference is not modelled: a reader may pass a writer that
// has announced Lock but not yet acquired it, which is indistinguishable from the reader arriving first.
type RWMutex struct {
	mu stdsync.RWMutex
	st int32
}

//go:norace
func (m *RWMutex) Lock() {
	if vsched.Active() {
		vsched.PointLock(vsched.KLock, unsafe.Pointer(m), &m.st)
		m.st = -1
	}

	m.mu.Lock()
}

//go:norace
func (m *RWMutex) Unlock() {
	if vsched.Active() {
		vsched.Point(vsched.KUnlock, unsafe.Pointer(m))
		m.st = 0
	}

	m.mu.Unlock()
}

//go:norace
func (m *RWMutex) RLock() {
	if vsched.Active() {
		vsched.PointLock(vsched.KRLock, unsafe.Pointer(m), &m.st)
		m.st++
	}

	m.mu.RLock()
}

//go:norace
func (m *RWMutex) RUnlock() {
	if vsched.Active() {
		vsched.Point(vsched.KRUnlock, unsafe.Pointer(m))
		m.st--
	}

	m.mu.RUnlock()
}

//go:norace
func (m *RWMutex) TryLock() bool {
	if vsched.Active() {
		vsched.Point(vsched.KUnlock, unsafe.Pointer(m))

		if m.st != 0 {
			vsched.Spin()
			return false
		}

		m.st = -1
	}

	return m.mu.TryLock()
}

//go:norace
func (m *RWMutex) TryRLock() bool {
	if vsched.Active() {
		vsched.Point(vsched.KUnlock, unsafe.Pointer(m))

		if m.st < 0 {
			vsched.Spin()
			return false
		}

		m.st++
	}

	return m.mu.TryRLock()
}

type rlocker RWMutex

func (r *rlocker) Lock()   { (*RWMutex)(r).RLock() }
func (r *rlocker) Unlock() { (*RWMutex)(r).RUnlock() }

func (m *RWMutex) RLocker() Locker { return (*rlocker)(m) }

// WaitGroup mirrors sync.WaitGroup.
type WaitGroup struct {
	wg stdsync.WaitGroup
	st int32
}

//go:norace
func (w *WaitGroup) Add(delta int) {
	if vsched.Active() {
		vsched.Point(vsched.KWGAdd, unsafe.Pointer(w))
		w.st += int32(delta)
	}

	w.wg.Add(delta)
}

func (w *WaitGroup) Done() { w.Add(-1) }

//go:norace
func (w *WaitGroup) Wait() {
	if vsched.Active() {
		vsched.PointLock(vsched.KWGWait, unsafe.Pointer(w), &w.st)
	}

	w.wg.Wait()
}

// Once mirrors sync.Once (std holds its mutex while f runs; so does this).
type Once struct {
	m    Mutex
	done bool
}

func (o *Once) Do(f func()) {
	o.m.Lock()
	defer o.m.Unlock()

	if !o.done {
		defer func() { o.done = true }()
		f()
	}
}

func OnceFunc(f func()) func() {
	var o Once
	return func() { o.Do(f) }
}

// RangePerm selects which permutation of the (sorted) key snapshot Map.Range visits; harnesses use
// it to enumerate iteration orders, which std leaves unspecified. 0 = sorted order.
var RangePerm int

// Map mirrors sync.Map. Range visits a snapshot of the key set taken at the start, loading each
// value at visit time (which is what std does), in a deterministic order.
type Map struct {
	m stdsync.Map
}

//go:norace
func (m *Map) Load(key any) (any, bool) {
	vsched.Point(vsched.KMapR, unsafe.Pointer(m))
	return m.m.Load(key)
}

//go:norace
func (m *Map) Store(key, value any) {
	vsched.Point(vsched.KMapW, unsafe.Pointer(m))
	m.m.Store(key, value)
}

//go:norace
func (m *Map) LoadOrStore(key, value any) (any, bool) {
	vsched.Point(vsched.KMapW, unsafe.Pointer(m))
	return m.m.LoadOrStore(key, value)
}

//go:norace
func (m *Map) LoadAndDelete(key any) (any, bool) {
	vsched.Point(vsched.KMapW, unsafe.Pointer(m))
	return m.m.LoadAndDelete(key)
}

//go:norace
func (m *Map) Delete(key any) {
	vsched.Point(vsched.KMapW, unsafe.Pointer(m))
	m.m.Delete(key)
}

//go:norace
func (m *Map) Swap(key, value any) (any, bool) {
	vsched.Point(vsched.KMapW, unsafe.Pointer(m))
	return m.m.Swap(key, value)
}

//go:norace
func (m *Map) CompareAndSwap(key, old, new any) bool {
	vsched.Point(vsched.KMapW, unsafe.Pointer(m))
	return m.m.CompareAndSwap(key, old, new)
}

//go:norace
func (m *Map) CompareAndDelete(key, old any) bool {
	vsched.Point(vsched.KMapW, unsafe.Pointer(m))
	return m.m.CompareAndDelete(key, old)
}

//go:norace
func (m *Map) Clear() {
	vsched.Point(vsched.KMapW, unsafe.Pointer(m))
	m.m.Clear()
}

func (m *Map) Range(f func(key, value any) bool) {
	vsched.Point(vsched.KMapR, unsafe.Pointer(m))

	var keys []any

	m.m.Range(func(k, _ any) bool {
		keys = append(keys, k)
		return true
	})

	sort.Slice(keys, func(i, j int) bool { return keyLess(keys[i], keys[j]) })
	permute(keys, RangePerm)

	for i, k := range keys {
		if i > 0 {
			vsched.Point(vsched.KMapR, unsafe.Pointer(m))
		}

		v, ok := m.m.Load(k)
		if !ok {
			continue
		}

		if !f(k, v) {
			return
		}
	}
}

func keyLess(a, b any) bool {
	as, ok1 := a.(string)
	bs, ok2 := b.(string)

	if ok1 && ok2 {
		return as < bs
	}

	return fmt.Sprint(a) < fmt.Sprint(b)
}

// permute applies the p-th permutation (factorial number system) to keys in place.
func permute(keys []any, p int) {
	n := len(keys)
	if p <= 0 || n < 2 {
		return
	}

	for i := 0; i < n-1 && p > 0; i++ {
		r := n - i
		j := i + p%r
		p /= r
		keys[i], keys[j] = keys[j], keys[i]
	}
}
