// Package atomic is the instrumented-build replacement of sync/atomic: a scheduling point, then the
// real atomic operation.
package atomic

import (
	stdatomic "sync/atomic"
	"unsafe"

	"verif/vsched"
)

//go:norace
func r(p unsafe.Pointer) { vsched.Point(vsched.KAtomicR, p) }

//go:norace
func w(p unsafe.Pointer) { vsched.Point(vsched.KAtomicW, p) }

func LoadInt32(a *int32) int32       { r(unsafe.Pointer(a)); return stdatomic.LoadInt32(a) }
func LoadInt64(a *int64) int64       { r(unsafe.Pointer(a)); return stdatomic.LoadInt64(a) }
func LoadUint32(a *uint32) uint32    { r(unsafe.Pointer(a)); return stdatomic.LoadUint32(a) }
func LoadUint64(a *uint64) uint64    { r(unsafe.Pointer(a)); return stdatomic.LoadUint64(a) }
func LoadUintptr(a *uintptr) uintptr { r(unsafe.Pointer(a)); return stdatomic.LoadUintptr(a) }
func LoadPointer(a *unsafe.Pointer) unsafe.Pointer {
	r(unsafe.Pointer(a))
	return stdatomic.LoadPointer(a)
}

func StoreInt32(a *int32, v int32)       { w(unsafe.Pointer(a)); stdatomic.StoreInt32(a, v) }
func StoreInt64(a *int64, v int64)       { w(unsafe.Pointer(a)); stdatomic.StoreInt64(a, v) }
func StoreUint32(a *uint32, v uint32)    { w(unsafe.Pointer(a)); stdatomic.StoreUint32(a, v) }
func StoreUint64(a *uint64, v uint64)    { w(unsafe.Pointer(a)); stdatomic.StoreUint64(a, v) }
func StoreUintptr(a *uintptr, v uintptr) { w(unsafe.Pointer(a)); stdatomic.StoreUintptr(a, v) }
func StorePointer(a *unsafe.Pointer, v unsafe.Pointer) {
	w(unsafe.Pointer(a))
	stdatomic.StorePointer(a, v)
}

func AddInt32(a *int32, d int32) int32     { w(unsafe.Pointer(a)); return stdatomic.AddInt32(a, d) }
func AddInt64(a *int64, d int64) int64     { w(unsafe.Pointer(a)); return stdatomic.AddInt64(a, d) }
func AddUint32(a *uint32, d uint32) uint32 { w(unsafe.Pointer(a)); return stdatomic.AddUint32(a, d) }
func AddUint64(a *uint64, d uint64) uint64 { w(unsafe.Pointer(a)); return stdatomic.AddUint64(a, d) }
func AddUintptr(a *uintptr, d uintptr) uintptr {
	w(unsafe.Pointer(a))
	return stdatomic.AddUintptr(a, d)
}

func SwapInt32(a *int32, v int32) int32     { w(unsafe.Pointer(a)); return stdatomic.SwapInt32(a, v) }
func SwapInt64(a *int64, v int64) int64     { w(unsafe.Pointer(a)); return stdatomic.SwapInt64(a, v) }
func SwapUint32(a *uint32, v uint32) uint32 { w(unsafe.Pointer(a)); return stdatomic.SwapUint32(a, v) }
func SwapUint64(a *uint64, v uint64) uint64 { w(unsafe.Pointer(a)); return stdatomic.SwapUint64(a, v) }
func SwapPointer(a *unsafe.Pointer, v unsafe.Pointer) unsafe.Pointer {
	w(unsafe.Pointer(a))
	return stdatomic.SwapPointer(a, v)
}

func CompareAndSwapInt32(a *int32, o, n int32) bool {
	w(unsafe.Pointer(a))
	return stdatomic.CompareAndSwapInt32(a, o, n)
}

func CompareAndSwapInt64(a *int64, o, n int64) bool {
	w(unsafe.Pointer(a))
	return stdatomic.CompareAndSwapInt64(a, o, n)
}

func CompareAndSwapUint32(a *uint32, o, n uint32) bool {
	w(unsafe.Pointer(a))
	return stdatomic.CompareAndSwapUint32(a, o, n)
}

func CompareAndSwapUint64(a *uint64, o, n uint64) bool {
	w(unsafe.Pointer(a))
	return stdatomic.CompareAndSwapUint64(a, o, n)
}

func CompareAndSwapPointer(a *unsafe.Pointer, o, n unsafe.Pointer) bool {
	w(unsafe.Pointer(a))
	return stdatomic.CompareAndSwapPointer(a, o, n)
}

// Int64 mirrors atomic.Int64.
type Int64 struct{ v stdatomic.Int64 }

func (x *Int64) Load() int64        { r(unsafe.Pointer(x)); return x.v.Load() }
func (x *Int64) Store(v int64)      { w(unsafe.Pointer(x)); x.v.Store(v) }
func (x *Int64) Add(d int64) int64  { w(unsafe.Pointer(x)); return x.v.Add(d) }
func (x *Int64) Swap(v int64) int64 { w(unsafe.Pointer(x)); return x.v.Swap(v) }
func (x *Int64) CompareAndSwap(o, n int64) bool {
	w(unsafe.Pointer(x))
	return x.v.CompareAndSwap(o, n)
}

// Int32 mirrors atomic.Int32.
type Int32 struct{ v stdatomic.Int32 }

func (x *Int32) Load() int32        { r(unsafe.Pointer(x)); return x.v.Load() }
func (x *Int32) Store(v int32)      { w(unsafe.Pointer(x)); x.v.Store(v) }
func (x *Int32) Add(d int32) int32  { w(unsafe.Pointer(x)); return x.v.Add(d) }
func (x *Int32) Swap(v int32) int32 { w(unsafe.Pointer(x)); return x.v.Swap(v) }
func (x *Int32) CompareAndSwap(o, n int32) bool {
	w(unsafe.Pointer(x))
	return x.v.CompareAndSwap(o, n)
}

// Uint64 mirrors atomic.Uint64.
type Uint64 struct{ v stdatomic.Uint64 }

func (x *Uint64) Load() uint64         { r(unsafe.Pointer(x)); return x.v.Load() }
func (x *Uint64) Store(v uint64)       { w(unsafe.Pointer(x)); x.v.Store(v) }
func (x *Uint64) Add(d uint64) uint64  { w(unsafe.Pointer(x)); return x.v.Add(d) }
func (x *Uint64) Swap(v uint64) uint64 { w(unsafe.Pointer(x)); return x.v.Swap(v) }
func (x *Uint64) CompareAndSwap(o, n uint64) bool {
	w(unsafe.Pointer(x))
	return x.v.CompareAndSwap(o, n)
}

// Uint32 mirrors atomic.Uint32.
type Uint32 struct{ v stdatomic.Uint32 }

func (x *Uint32) Load() uint32         { r(unsafe.Pointer(x)); return x.v.Load() }
func (x *Uint32) Store(v uint32)       { w(unsafe.Pointer(x)); x.v.Store(v) }
func (x *Uint32) Add(d uint32) uint32  { w(unsafe.Pointer(x)); return x.v.Add(d) }
func (x *Uint32) Swap(v uint32) uint32 { w(unsafe.Pointer(x)); return x.v.Swap(v) }
func (x *Uint32) CompareAndSwap(o, n uint32) bool {
	w(unsafe.Pointer(x))
	return x.v.CompareAndSwap(o, n)
}

// Bool mirrors atomic.Bool.
type Bool struct{ v stdatomic.Bool }

func (x *Bool) Load() bool       { r(unsafe.Pointer(x)); return x.v.Load() }
func (x *Bool) Store(v bool)     { w(unsafe.Pointer(x)); x.v.Store(v) }
func (x *Bool) Swap(v bool) bool { w(unsafe.Pointer(x)); return x.v.Swap(v) }
func (x *Bool) CompareAndSwap(o, n bool) bool {
	w(unsafe.Pointer(x))
	return x.v.CompareAndSwap(o, n)
}

// Value mirrors atomic.Value.
type Value struct{ v stdatomic.Value }

func (x *Value) Load() any      { r(unsafe.Pointer(x)); return x.v.Load() }
func (x *Value) Store(v any)    { w(unsafe.Pointer(x)); x.v.Store(v) }
func (x *Value) Swap(v any) any { w(unsafe.Pointer(x)); return x.v.Swap(v) }
func (x *Value) CompareAndSwap(o, n any) bool {
	w(unsafe.Pointer(x))
	return x.v.CompareAndSwap(o, n)
}

// Pointer mirrors atomic.Pointer[T].
type Pointer[T any] struct{ v stdatomic.Pointer[T] }

func (x *Pointer[T]) Load() *T     { r(unsafe.Pointer(x)); return x.v.Load() }
func (x *Pointer[T]) Store(v *T)   { w(unsafe.Pointer(x)); x.v.Store(v) }
func (x *Pointer[T]) Swap(v *T) *T { w(unsafe.Pointer(x)); return x.v.Swap(v) }
func (x *Pointer[T]) CompareAndSwap(o, n *T) bool {
	w(unsafe.Pointer(x))
	return x.v.CompareAndSwap(o, n)
}
