// Package rand is the instrumented-build replacement of math/rand: Float64 is an environment answer
// owned by the harness (vclock); everything else is a deterministic, fixed-seed source.
package rand

import (
	stdrand "math/rand"

	"verif/vclock"
)

var src = stdrand.New(stdrand.NewSource(1))

type (
	Rand   = stdrand.Rand
	Source = stdrand.Source
	Zipf   = stdrand.Zipf
)

func New(s Source) *Rand          { return stdrand.New(s) }
func NewSource(seed int64) Source { return stdrand.NewSource(seed) }
func Seed(seed int64)             {}
func Float64() float64            { return vclock.Float64() }
func Float32() float32            { return float32(vclock.Float64()) }
func Int() int                    { return src.Int() }
func Intn(n int) int              { return src.Intn(n) }
func Int31() int32                { return src.Int31() }
func Int31n(n int32) int32        { return src.Int31n(n) }
func Int63() int64                { return src.Int63() }
func Int63n(n int64) int64        { return src.Int63n(n) }
func Uint32() uint32              { return src.Uint32() }
func Uint64() uint64              { return src.Uint64() }
func Perm(n int) []int            { return src.Perm(n) }
func NormFloat64() float64        { return src.NormFloat64() }
func ExpFloat64() float64         { return src.ExpFloat64() }
func Shuffle(n int, swap func(i, j int)) {
	src.Shuffle(n, swap)
}
func Read(p []byte) (int, error) { return src.Read(p) }
