// Package time is the instrumented-build replacement of package time: same types (aliases, so type
// identity with context, net/http etc. is preserved), virtual Now/Since/Until.
package time

import (
	stdtime "time"

	"verif/vclock"
	"verif/vsched"
)

type (
	Duration   = stdtime.Duration
	Time       = stdtime.Time
	Month      = stdtime.Month
	Weekday    = stdtime.Weekday
	Location   = stdtime.Location
	Timer      = stdtime.Timer
	Ticker     = stdtime.Ticker
	ParseError = stdtime.ParseError
)

const (
	Nanosecond  = stdtime.Nanosecond
	Microsecond = stdtime.Microsecond
	Millisecond = stdtime.Millisecond
	Second      = stdtime.Second
	Minute      = stdtime.Minute
	Hour        = stdtime.Hour

	Layout      = stdtime.Layout
	ANSIC       = stdtime.ANSIC
	UnixDate    = stdtime.UnixDate
	RubyDate    = stdtime.RubyDate
	RFC822      = stdtime.RFC822
	RFC822Z     = stdtime.RFC822Z
	RFC850      = stdtime.RFC850
	RFC1123     = stdtime.RFC1123
	RFC1123Z    = stdtime.RFC1123Z
	RFC3339     = stdtime.RFC3339
	RFC3339Nano = stdtime.RFC3339Nano
	Kitchen     = stdtime.Kitchen
	Stamp       = stdtime.Stamp
	StampMilli  = stdtime.StampMilli
	StampMicro  = stdtime.StampMicro
	StampNano   = stdtime.StampNano
	DateTime    = stdtime.DateTime
	DateOnly    = stdtime.DateOnly
	TimeOnly    = stdtime.TimeOnly

	January   = stdtime.January
	February  = stdtime.February
	March     = stdtime.March
	April     = stdtime.April
	May       = stdtime.May
	June      = stdtime.June
	July      = stdtime.July
	August    = stdtime.August
	September = stdtime.September
	October   = stdtime.October
	November  = stdtime.November
	December  = stdtime.December

	Sunday    = stdtime.Sunday
	Monday    = stdtime.Monday
	Tuesday   = stdtime.Tuesday
	Wednesday = stdtime.Wednesday
	Thursday  = stdtime.Thursday
	Friday    = stdtime.Friday
	Saturday  = stdtime.Saturday
)

var (
	UTC   = stdtime.UTC
	Local = stdtime.Local
)

func Now() Time                 { return vclock.Now() }
func Since(t Time) Duration     { return vclock.Now().Sub(t) }
func Until(t Time) Duration     { return t.Sub(vclock.Now()) }
func Unix(sec, nsec int64) Time { return stdtime.Unix(sec, nsec) }
func UnixMilli(ms int64) Time   { return stdtime.UnixMilli(ms) }
func UnixMicro(us int64) Time   { return stdtime.UnixMicro(us) }
func Date(y int, m Month, d, h, mi, s, ns int, loc *Location) Time {
	return stdtime.Date(y, m, d, h, mi, s, ns, loc)
}
func Parse(layout, value string) (Time, error)    { return stdtime.Parse(layout, value) }
func ParseDuration(s string) (Duration, error)    { return stdtime.ParseDuration(s) }
func LoadLocation(name string) (*Location, error) { return stdtime.LoadLocation(name) }
func FixedZone(name string, offset int) *Location { return stdtime.FixedZone(name, offset) }
func ParseInLocation(l, v string, loc *Location) (Time, error) {
	return stdtime.ParseInLocation(l, v, loc)
}

// Sleep under the scheduler is a scheduling point (time is virtual and only the harness moves it);
// outside an execution it returns at once.
func Sleep(d Duration) { vsched.Yield() }

// After, NewTimer, NewTicker, Tick, AfterFunc are only reached from daemon goroutines, which are not
// started in instrumented builds; they fall through to real timers.
func After(d Duration) <-chan Time          { return stdtime.After(d) }
func NewTimer(d Duration) *Timer            { return stdtime.NewTimer(d) }
func NewTicker(d Duration) *Ticker          { return stdtime.NewTicker(d) }
func Tick(d Duration) <-chan Time           { return stdtime.Tick(d) }
func AfterFunc(d Duration, f func()) *Timer { return stdtime.AfterFunc(d, f) }
