package harness

import (
	"context"
	"encoding/json"
	"errors"
	"fmt"
	"math"
	"reflect"
	"strings"
	"time"
	"unsafe"

	"github.com/bool64/cache"

	"verif/vclock"
	"verif/vsched"
)

// C17 — Invalidator runs all callbacks, at most once per SkipInterval (DESIGN §C17).

type c17Cell struct {
	Mode      string `json:"mode"`     // seq | conc
	Interval  int    `json:"interval"` // seconds; 0 = default 15s
	Callbacks int    `json:"callbacks"`
	Threads   []int  `json:"threads,omitempty"` // conc: Invalidate calls per thread
	Adv       string `json:"adv,omitempty"`     // conc: "", "I-1ns", "I"
	First     int    `json:"first"`
	Reg       bool   `json:"reg,omitempty"` // conc: one more thread registers a further callback (under the Invalidator's own mutex)
}

func (c c17Cell) id() string { js, _ := json.Marshal(c); return string(js) }

func c17Cells(tier string) []Cell {
	var cells []Cell

	for _, iv := range []int{0, 1} {
		for _, cb := range []int{0, 1, 3} {
			for first := 0; first < 10; first++ {
				cells = append(cells, Cell{ID: c17Cell{Mode: "seq", Interval: iv, Callbacks: cb, First: first}.id()})
			}

			progs := [][]int{{1, 1}, {2, 1}, {1, 1, 1}}
			if tier == "thorough" {
				progs = append(progs, []int{2, 2}, []int{2, 1, 1}, []int{2, 2, 1}, []int{2, 2, 2}, []int{1, 1, 1, 1}, []int{3, 2})
			}

			for _, p := range progs {
				for _, adv := range []string{"", "I-1ns", "I", "2xI"} {
					cells = append(cells, Cell{ID: c17Cell{Mode: "conc", Interval: iv, Callbacks: cb, Threads: p, Adv: adv}.id()})
				}
			}

			// a callback is registered at run time, under the Invalidator's mutex, next to the callers
			if cb > 0 {
				for _, p := range [][]int{{1}, {1, 1}, {2}} {
					for _, adv := range []string{"", "I"} {
						cells = append(cells, Cell{ID: c17Cell{Mode: "conc", Interval: iv, Callbacks: cb, Threads: p, Adv: adv, Reg: true}.id()})
					}
				}
			}
		}
	}

	// a negative SkipInterval (flood protection switched off): nothing is rejected, nothing overlaps
	for _, cb := range []int{1, 3} {
		for _, p := range [][]int{{1, 1}, {2, 1}, {1, 1, 1}} {
			cells = append(cells, Cell{ID: c17Cell{Mode: "conc", Interval: -1, Callbacks: cb, Threads: p}.id()})
		}
	}

	// SkipInterval near the end of the Duration range (appended: the indices of the cells above stay what they were)
	for iv := range c17HugeIntervals {
		for _, cb := range []int{1, 3} {
			cells = append(cells, Cell{ID: c17Cell{Mode: "huge", Interval: iv, Callbacks: cb}.id()})
		}
	}

	return cells
}

type callIDKey struct{}

type c17h struct {
	runStart  map[int]time.Time // virtual instant at which the first callback of a call started
	runOrder  []int             // calls in the order their runs started
	inv       *cache.Invalidator
	log       []string // "cb<j>@call<id>"
	inflight  int
	overlap   bool
	monitor   int64
	ncalls    int
	panicIn   int  // id of the call whose last callback panics (-1: none)
	cancelled bool // the next invalidate() passes an already cancelled context
	mk        func(j int) func(ctx context.Context)
	nreg      int         // callbacks registered so far (written under the Invalidator's mutex)
	wantAt    map[int]int // per accepted call: callbacks registered at the moment its run started
}

// c17Panic is what a faulting callback panics with.
type c17Panic struct{}

func newC17(cc c17Cell, points bool) *c17h {
	vclock.Reset()

	h := &c17h{inv: &cache.Invalidator{SkipInterval: time.Duration(cc.Interval) * time.Second}, runStart: map[int]time.Time{}, panicIn: -1}

	h.wantAt = map[int]int{}
	h.nreg = cc.Callbacks

	h.mk = func(j int) func(ctx context.Context) {
		return func(ctx context.Context) {
			h.inflight++
			if h.inflight > 1 {
				h.overlap = true
			}

			if id, ok := ctx.Value(callIDKey{}).(int); ok && j == 0 {
				h.runStart[id] = vclock.NowQuiet()
				h.runOrder = append(h.runOrder, id)
				h.wantAt[id] = h.nreg
			}

			if points {
				vsched.PointTag(vsched.KCall, unsafe.Pointer(&h.monitor), uint32(j))
			}

			h.log = append(h.log, fmt.Sprintf("cb%d@call%v", j, ctx.Value(callIDKey{})))
			h.inflight--

			if id, ok := ctx.Value(callIDKey{}).(int); ok && id == h.panicIn && j == cc.Callbacks-1 {
				panic(c17Panic{})
			}
		}
	}

	for j := 0; j < cc.Callbacks; j++ {
		h.inv.Callbacks = append(h.inv.Callbacks, h.mk(j))
	}

	return h
}

func (h *c17h) invalidate() (int, error) {
	id := h.ncalls
	h.ncalls++

	ctx := context.WithValue(context.Background(), callIDKey{}, id)

	if h.cancelled {
		c, cancel := context.WithCancel(ctx)
		cancel()

		ctx = c
	}

	return id, h.inv.Invalidate(ctx)
}

// invalidateFaulting is invalidate with the last callback panicking if the call is accepted; the caller recovers.
func (h *c17h) invalidateFaulting() (id int, err error, panicked bool) {
	id = h.ncalls
	h.ncalls++
	h.panicIn = id

	defer func() {
		h.panicIn = -1

		if r := recover(); r != nil {
			if _, ok := r.(c17Panic); !ok {
				panic(r)
			}

			panicked = true
		}
	}()

	err = h.inv.Invalidate(context.WithValue(context.Background(), callIDKey{}, id))

	return id, err, false
}

// callbacksOf returns the callbacks logged for a call, in order.
func (h *c17h) callbacksOf(id int) string {
	var s []string

	suffix := fmt.Sprintf("@call%d", id)
	for _, l := range h.log {
		if strings.HasSuffix(l, suffix) {
			s = append(s, strings.TrimSuffix(l, suffix))
		}
	}

	return strings.Join(s, ",")
}

func wantCallbacks(n int) string {
	var s []string
	for j := 0; j < n; j++ {
		s = append(s, fmt.Sprintf("cb%d", j))
	}

	return strings.Join(s, ",")
}

func c17Interval(cc c17Cell) time.Duration {
	if cc.Interval == 0 {
		return 15 * time.Second
	}

	return time.Duration(cc.Interval) * time.Second
}

func c17Seq(cc c17Cell, env *Env) CellResult {
	iv := c17Interval(cc)
	ops := []string{"Invalidate", "Advance(I-1ns)", "Advance(I)", "Advance(I+1ns)", "Advance(1ns)", "Callbacks=nil", "Callbacks=restored",
		"Invalidate(last callback panics, caller recovers)", "Invalidate(caller context already cancelled)", "SkipInterval changed (x3 / back) under the lock"}

	type st struct {
		h        *c17h
		last     time.Time
		accepted bool // at least one accepted call so far
		cleared  bool // Callbacks currently nil
		saved    []func(ctx context.Context)
		cur      time.Duration // the interval currently configured on the instance (0: as constructed)
	}

	depth := 5
	if env.Thorough() {
		depth = 7
	}

	apply := func(s *st, op int) (string, bool) {
		iv := iv // the interval in force: the exported field may be changed on a live instance
		if s.cur != 0 {
			iv = s.cur
		}

		switch op {
		case 0, 7, 8:
			now := vclock.NowQuiet()

			var (
				id       int
				err      error
				panicked bool
			)

			switch op {
			case 7:
				id, err, panicked = s.h.invalidateFaulting()
			case 8:
				// the context is handed to the callbacks; whether it is still live is their business, not Invalidate's
				s.h.cancelled = true
				id, err = s.h.invalidate()
				s.h.cancelled = false
			default:
				id, err = s.h.invalidate()
			}

			got := s.h.callbacksOf(id)

			if accepted := cc.Callbacks != 0 && !s.cleared && (!s.accepted || now.Sub(s.last) >= iv); panicked != (op == 7 && accepted) {
				return fmt.Sprintf("callback panic reached the caller: %v, want %v", panicked, op == 7 && accepted), false
			}

			if panicked {
				// an accepted run is an accepted run, however it ended: the next one is due SkipInterval later
				if got != wantCallbacks(cc.Callbacks) {
					return fmt.Sprintf("accepted call ran callbacks [%s] before the last one panicked, want [%s]", got, wantCallbacks(cc.Callbacks)), false
				}

				s.last, s.accepted = now, true

				return "accepted-panicked", true
			}

			switch {
			case cc.Callbacks == 0 || s.cleared:
				if got != "" {
					return fmt.Sprintf("call without registered callbacks ran callbacks [%s]", got), false
				}

				if !errors.Is(err, cache.ErrNothingToInvalidate) {
					return fmt.Sprintf("no callbacks registered: Invalidate returned %v, want ErrNothingToInvalidate", err), false
				}

				return "nothing", true
			case !s.accepted || now.Sub(s.last) >= iv:
				if err != nil {
					return fmt.Sprintf("call %v after the previous accepted one must be accepted (interval %v), got error: %v", now.Sub(s.last), iv, err), false
				}

				if got != wantCallbacks(cc.Callbacks) {
					return fmt.Sprintf("accepted call ran callbacks [%s], want every callback once in registration order [%s]", got, wantCallbacks(cc.Callbacks)), false
				}

				s.last, s.accepted = now, true

				return "accepted", true
			default:
				if !errors.Is(err, cache.ErrAlreadyInvalidated) {
					return fmt.Sprintf("call only %v after the previous accepted one (interval %v) returned %v, want ErrAlreadyInvalidated", now.Sub(s.last), iv, err), false
				}

				if got != "" {
					return fmt.Sprintf("rejected call ran callbacks [%s]", got), false
				}

				return "rejected", true
			}
		case 1:
			vclock.Advance(iv - time.Nanosecond)
		case 2:
			vclock.Advance(iv)
		case 3:
			vclock.Advance(iv + time.Nanosecond)
		case 4:
			vclock.Advance(time.Nanosecond)
		case 5:
			if !s.cleared {
				s.saved, s.h.inv.Callbacks, s.cleared = s.h.inv.Callbacks, nil, true
			}
		case 6:
			if s.cleared {
				s.h.inv.Callbacks, s.cleared = s.saved, false
			}
		case 9:
			base := c17Interval(cc)

			s.h.inv.Lock()

			if s.cur == 3*base {
				s.cur = base
			} else {
				s.cur = 3 * base
			}

			s.h.inv.SkipInterval = s.cur
			s.h.inv.Unlock()
		}

		return "ok", true
	}

	sp := SeqSpec{
		Ops: ops, Depth: depth,
		New: func() interface{} {
			s := &st{h: newC17(cc, false)}
			if msg, ok := apply(s, cc.First); !ok {
				panic(msg)
			}

			return s
		},
		Apply: func(s interface{}, op int) (string, bool) { return apply(s.(*st), op) },
		Canon: func(s interface{}) string {
			x := s.(*st)

			// the implementation's own notion of "last run" is part of the key: two histories are merged only if the
			// model AND the Invalidator's private timestamp agree (a timestamp moved by a rejected call is hidden state
			// the model does not have)
			impl := "?"

			if f := reflect.ValueOf(x.h.inv).Elem().FieldByName("lastRun"); f.IsValid() && f.CanAddr() {
				if t, ok := reflect.NewAt(f.Type(), unsafe.Pointer(f.UnsafeAddr())).Elem().Interface().(time.Time); ok {
					switch d := vclock.NowQuiet().Sub(t); {
					case t.IsZero():
						impl = "zero"
					case d > 6*iv+2:
						impl = "long ago"
					default:
						impl = d.String()
					}
				}
			}

			if !x.accepted {
				return fmt.Sprint("never", x.cleared, impl, x.cur)
			}

			d := vclock.NowQuiet().Sub(x.last)
			if d > 6*iv+2 {
				d = 6*iv + 2 // beyond (three times) the interval all futures coincide
			}

			return fmt.Sprint(d, x.cleared, impl, x.cur)
		},
	}

	// the first op from the initial state
	s0 := &st{h: newC17(cc, false)}
	if msg, ok := apply(s0, cc.First); !ok {
		return CellResult{Exhaustive: true, Execs: 1, States: 1, Transitions: 1, Violations: []Violation{{Signature: "C17 seq " + classify(msg), Detail: msg + "\n  sequence: " + ops[cc.First]}}}
	}

	if env.Replay != nil {
		var seq []int
		_ = json.Unmarshal(env.Replay.Extra, &seq)

		res := CellResult{}
		if msg, ok := ReplaySeq(sp, seq, true); !ok {
			res.Violations = append(res.Violations, Violation{Signature: "C17 seq " + classify(msg), Detail: msg})
		}

		return res
	}

	sr := RunSeq(sp, env.Deadline, 6)

	return seqCellResult("C17", "C17 seq", sr, ops[cc.First])
}

func c17Conc(cc c17Cell, env *Env) CellResult {
	res := CellResult{Exhaustive: true, Outcomes: map[string]int{}}
	iv := c17Interval(cc)

	type callRes struct {
		id           int
		err          error
		vStart, vEnd time.Time // virtual instants at which the call was issued and at which it returned
	}

	var (
		h     *c17h
		calls []callRes
	)

	body := func() {
		h = newC17(cc, true)
		calls = nil

		for _, n := range cc.Threads {
			n := n
			vsched.SpawnThread("invalidate", func() {
				for i := 0; i < n; i++ {
					t0 := vclock.NowQuiet()
					id, err := h.invalidate()
					calls = append(calls, callRes{id, err, t0, vclock.NowQuiet()})
				}
			})
		}

		if cc.Reg {
			// run-time registration the way the exported embedded mutex allows it
			vsched.SpawnThread("register", func() {
				h.inv.Lock()
				h.inv.Callbacks = append(h.inv.Callbacks, h.mk(h.nreg))
				h.nreg++
				h.inv.Unlock()
			})
		}

		if cc.Adv != "" {
			vsched.SpawnThread("clock", func() {
				switch cc.Adv {
				case "I":
					vclock.Advance(iv)
				case "2xI":
					vclock.Advance(iv)
					vclock.Advance(iv)
				default:
					vclock.Advance(iv - time.Nanosecond)
				}
			})
		}

		vsched.Join()
	}

	check := func(r *vsched.Result) []Violation {
		var vs []Violation

		bad := func(kind, detail string) {
			vs = append(vs, Violation{Signature: "C17 conc " + kind, Detail: detail + "\n  callback log: " + strings.Join(h.log, " ")})
		}

		if r.Deadlock || r.Panic != nil {
			bad("fatal", fmt.Sprintf("deadlock=%v panic=%v\n%s", r.Deadlock, r.Panic, r.PanicStack))
			return vs
		}

		if h.overlap {
			bad("overlap", "callbacks of two Invalidate calls overlapped")
		}

		accepted := 0

		for _, c := range calls {
			got := h.callbacksOf(c.id)

			switch {
			case cc.Callbacks == 0:
				if !errors.Is(c.err, cache.ErrNothingToInvalidate) {
					bad("nothing", fmt.Sprintf("no callbacks: Invalidate returned %v", c.err))
				}
			case c.err == nil:
				accepted++

				want := wantCallbacks(cc.Callbacks)
				if cc.Reg {
					// the list as it was when the call was accepted (its run started, under the mutex)
					want = wantCallbacks(h.wantAt[c.id])
				}

				if got != want {
					bad("callbacks", fmt.Sprintf("accepted call %d ran [%s], want [%s] (all callbacks registered when the call was accepted)", c.id, got, want))
				}
			case errors.Is(c.err, cache.ErrAlreadyInvalidated):
				if got != "" {
					bad("rejected-ran", fmt.Sprintf("rejected call %d ran callbacks [%s]", c.id, got))
				}
			default:
				bad("error", fmt.Sprintf("unexpected error %v", c.err))
			}
		}

		// a rejection needs a reason: an accepted run that had started by the time the call returned and less than
		// SkipInterval before the call was issued (callbacks run under the mutex, so the run that stamped the interval
		// has started before anybody else can look at it)
		for _, c := range calls {
			if cc.Callbacks == 0 || !errors.Is(c.err, cache.ErrAlreadyInvalidated) {
				continue
			}

			justified := false

			for _, a := range h.runOrder {
				if !h.runStart[a].After(c.vEnd) && c.vStart.Sub(h.runStart[a]) < iv {
					justified = true
				}
			}

			if !justified {
				bad("rejected-without-reason", fmt.Sprintf("call %d, issued at +%v and returned at +%v, was rejected although no accepted run had started within SkipInterval %v before it (runs started at %v)",
					c.id, c.vStart.Sub(vclock.Epoch), c.vEnd.Sub(vclock.Epoch), iv, func() []time.Duration {
						var d []time.Duration
						for _, a := range h.runOrder {
							d = append(d, h.runStart[a].Sub(vclock.Epoch))
						}

						return d
					}()))
			}
		}

		// the runs of consecutive accepted calls start at least SkipInterval apart
		for i := 1; i < len(h.runOrder); i++ {
			a, b := h.runOrder[i-1], h.runOrder[i]
			if d := h.runStart[b].Sub(h.runStart[a]); d < iv {
				bad("run-spacing", fmt.Sprintf("accepted call %d started its callbacks only %v after accepted call %d started its own (SkipInterval %v)", b, d, a, iv))
			}
		}

		if cc.Callbacks > 0 && iv < 0 {
			// a negative interval never rejects: every call is accepted (and they still do not overlap)
			if accepted != len(calls) {
				bad("spacing", fmt.Sprintf("%d of %d calls accepted with a negative SkipInterval (%v): want all", accepted, len(calls), iv))
			}
		} else if cc.Callbacks > 0 {
			max := 1
			if cc.Adv == "I" {
				max = 2
			}

			if cc.Adv == "2xI" {
				max = 3
			}

			if accepted < 1 || accepted > max {
				bad("spacing", fmt.Sprintf("%d calls accepted although the clock advanced by %q in total (interval %v): want between 1 and %d", accepted, cc.Adv, iv, max))
			}
		}

		return vs
	}

	if env.Replay != nil {
		r := vsched.Replay(env.Replay.Choices, body)
		res.Violations = check(r)

		fmt.Printf("callback log: %v\n%s", h.log, vsched.FormatTrace(r))

		return res
	}

	opt := vsched.Options{PreemptionBound: 2, EnvBound: 0, HBCache: true, Deadline: env.Deadline}
	if env.Thorough() {
		opt = vsched.Options{PreemptionBound: -1, EnvBound: 0, HBCache: true, MaxExecs: 500000, Deadline: env.Deadline}
	}

	seen := map[string]bool{}
	st := vsched.Explore(opt, body, func(r *vsched.Result) bool {
		for _, v := range check(r) {
			if !seen[v.Signature] {
				seen[v.Signature] = true
				v.Choices = r.Choices()
				mustReproduce(v.Signature, v.Choices, body, check)
				res.Violations = append(res.Violations, v)
			}
		}

		acc := 0
		for _, c := range calls {
			if c.err == nil {
				acc++
			}
		}

		res.Outcomes[fmt.Sprintf("threads=%v adv=%s accepted=%d", cc.Threads, cc.Adv, acc)]++

		if res.Sample == nil {
			res.Sample = map[string]interface{}{"schedule": r.Choices(), "callback_log": append([]string{}, h.log...)}
		}

		return true
	})

	res.Execs, res.Transitions, res.States, res.MaxDepth = st.Execs, st.Transitions, st.HBStates, st.MaxDepth
	if !st.Exhaustive {
		res.Exhaustive, res.CapHit = false, st.CapHit
	}

	return res
}

func c17Run(c Cell, env *Env) CellResult {
	var cc c17Cell
	_ = json.Unmarshal([]byte(c.ID), &cc)

	if cc.Mode == "seq" {
		return c17Seq(cc, env)
	}

	if cc.Mode == "huge" {
		return c17Huge(cc, env)
	}

	return c17Conc(cc, env)
}

// c17HugeIntervals: SkipInterval is a time.Duration; values near the end of its range are legal ("practically never
// again"). Index = cc.Interval.
var c17HugeIntervals = []time.Duration{time.Duration(math.MaxInt64), 250 * 365 * 24 * time.Hour, 100 * 365 * 24 * time.Hour}

// c17Huge enumerates every sequence of <=4 (5) operations over {Invalidate, Advance(1ns), Advance(40y)} on an
// Invalidator whose SkipInterval is huge; the rule is the same as everywhere.
func c17Huge(cc c17Cell, env *Env) CellResult {
	res := CellResult{Exhaustive: true, Outcomes: map[string]int{}}
	iv := c17HugeIntervals[cc.Interval]
	ops := []string{"Invalidate", "Advance(1ns)", "Advance(40y)"}

	depth := 4
	if env.Thorough() {
		depth = 5
	}

	var seqs [][]int

	cur := [][]int{{}}
	for l := 0; l < depth; l++ {
		var next [][]int

		for _, q := range cur {
			for o := range ops {
				next = append(next, append(append([]int{}, q...), o))
			}
		}

		seqs = append(seqs, next...)
		cur = next
	}

	if env.Replay != nil {
		var seq []int
		_ = json.Unmarshal(env.Replay.Extra, &seq)
		seqs = [][]int{seq}
	}

	seen := map[string]bool{}

	for _, seq := range seqs {
		h := newC17(cc, false)
		h.inv.SkipInterval = iv

		var (
			last     time.Time
			accepted bool
			names    []string
			msg      string
		)

		for _, o := range seq {
			names = append(names, ops[o])
			res.Transitions++

			switch o {
			case 1:
				vclock.Advance(time.Nanosecond)
			case 2:
				vclock.Advance(40 * 365 * 24 * time.Hour)
			default:
				now := vclock.NowQuiet()
				id, err := h.invalidate()
				got := h.callbacksOf(id)

				if !accepted || now.Sub(last) >= iv {
					if err != nil || got != wantCallbacks(cc.Callbacks) {
						msg = fmt.Sprintf("call %v after the previous accepted one (none before: %v) must be accepted (SkipInterval %v): returned %v, ran [%s]", now.Sub(last), !accepted, iv, err, got)
					}

					last, accepted = now, true
				} else if !errors.Is(err, cache.ErrAlreadyInvalidated) || got != "" {
					msg = fmt.Sprintf("call only %v after the previous accepted one (SkipInterval %v) returned %v and ran [%s], want ErrAlreadyInvalidated and no callbacks", now.Sub(last), iv, err, got)
				}
			}

			if msg != "" {
				break
			}
		}

		res.Execs++
		res.States++

		if msg != "" {
			sig := "C17 huge-interval " + strings.Fields(msg)[0] + "-" + map[bool]string{true: "accept", false: "reject"}[strings.Contains(msg, "must be accepted")]
			if !seen[sig] {
				seen[sig] = true
				js, _ := json.Marshal(seq)
				res.Violations = append(res.Violations, Violation{Signature: sig, Detail: msg + "\n  sequence: " + strings.Join(names, "; "), Extra: js})
			}

			continue
		}

		res.Outcomes[fmt.Sprintf("huge iv=%v len=%d", iv, len(seq))]++
	}

	res.MaxDepth = depth

	return res
}

func init() {
	Register(&Prop{
		ID: "C17", Title: "Invalidator runs all callbacks, at most once per SkipInterval",
		Cells: c17Cells, Run: c17Run,
		Rule: "(seq) BFS over sequences of {Invalidate, Invalidate whose last callback panics (caller recovers), Invalidate under an already cancelled context, SkipInterval changed on the live instance, Advance I-1ns, I, I+1ns, 1ns, Callbacks=nil, Callbacks=restored} for SkipInterval {default 15s, 1s} x callbacks {none,1,3} against the model accepted <=> now-lastAccepted >= I; " +
			"(negative interval) the concurrent programs with SkipInterval -1s: every call accepted, none overlapping; (huge) every sequence of <=4 (5) operations over {Invalidate, Advance 1ns, Advance 40y} with SkipInterval in {MaxInt64 ns, 250y, 100y}; (conc) 2-3 threads x 1-2 Invalidate calls plus a clock thread advancing by I-1ns or I, callbacks are harness functions with a scheduling point inside, all schedules within the bound; the same with one more thread that registers a further callback under the Invalidator's own mutex (an accepted call runs the list as it is when it is accepted): " +
			"no overlap, every accepted call runs every callback once in order before it returns, rejected calls run none and every rejection is explained by an accepted run less than SkipInterval earlier, number of accepted calls bounded by the elapsed virtual time",
		Assumptions: []string{
			"calls are attributed to callbacks through a context value",
			"quick: preemption bound 2; thorough: unbounded with happens-before caching",
		},
	})
}
