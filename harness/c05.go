package harness

import (
	"context"
	"fmt"
	"strings"
	"time"

	"github.com/bool64/cache"

	"verif/vclock"
	"verif/vsched"
)

// C05 — build economy: SyncRead single-flight and cached failures suppress rebuilds (DESIGN §C05).

func c05Cells(tier string) []Cell {
	var cells []Cell

	// (a) SyncRead single-flight and (c) failing burst.
	progs := [][][]GOp{
		{{{Key: 0}}, {{Key: 0}}},
		{{{Key: 0}, {Key: 0}}, {{Key: 0}}},
		{{{Key: 0}}, {{Key: 0}}, {{Key: 0}}},
	}
	if tier == "thorough" {
		progs = append(progs, [][]GOp{{{Key: 0}, {Key: 0}}, {{Key: 0}, {Key: 0}}, {{Key: 0}}})
	}

	// one caller's context is cancelled before its Get (a failure under such a context is a failure all the same)
	progs = append(progs, [][]GOp{{{Key: 0, CBef: true}}, {{Key: 0}}}, [][]GOp{{{Key: 0, CBef: true}}, {{Key: 0}}, {{Key: 0}}})

	for front := 0; front < 3; front++ {
		for bits := 0; bits < 8; bits++ {
			for _, init := range []string{"A", "S", "T", "F"} {
				for _, sc := range []string{"o", "f"} {
					for _, p := range progs {
						c := FCfg{
							Front: front, SU: boolBits(bits, 0), SR: true, FH: boolBits(bits, 1), MS: boolBits(bits, 2),
							Init: init, FailC: "0", Script: sc, Threads: p, Tags: []string{"burst"},
						}
						cells = append(cells, Cell{ID: c.ID()})

						// the same burst against a slow data source (every build takes longer than UpdateTTL), followed by
						// one more Get a little later: the result of the burst's build is still fresh then
						if sc == "o" && len(p) == 2 && len(p[0]) == 1 && !p[0][0].CBef {
							c.Tags = []string{"burst", "slow"}
							cells = append(cells, Cell{ID: c.ID()})
						}
					}
				}
			}
		}
	}

	// (b) failure suppression window, sequential with virtual clock.
	// Sequences of 4 in both tiers. (Length 5 was tried in the thorough tier: a worker holds every instance of a cell's
	// 38 416 sequences until the cell ends, 4-6 GB per worker, and 16 of them exhaust the machine.)
	maxLen := 4

	for front := 0; front < 3; front++ {
		for _, ft := range []int{0, 5, -1} {
			for _, rnd := range []float64{1 + 0, 1 + (1 - 1.0/(1<<53)), 1 + 0.5} {
				for _, su := range []bool{false, true} {
					for _, init := range []string{"A", "S"} {
						for first := 0; first < len(c05Alphabet(ft)); first++ {
							// thorough: sequences of 5 operations if they start with a Get, of 4 if they start with a clock step,
							// ExpireAll, another key's failure or a cleanup cycle of the failure cache (from the initial state
							// those leave the key as it was, only later)
							maxLen := maxLen
							if tier == "thorough" && (first == 2 || first == 3 || first == 4 || first == 5 || first == 9 || first == 10 || ft < 0) {
								maxLen = 4 // (also with the failure cache disabled: there is no window to walk around in)
							}

							// a second key (absent) for failures of "another key"; BackendConfig carries a count limit that must not
							// reach the failure cache (the backend is given explicitly, so the limit applies to nothing)
							c := FCfg{Front: front, SU: su, MS: true, Init: init + "A", FailC: "00", Rand: rnd, BCount: 1, Tags: []string{"window", fmt.Sprint(maxLen), fmt.Sprint(first)}}
							if init == "S" && rnd == 1+0.5 {
								c.ObsMut = true // ... and ObserveMutability compares every rebuilt value with the one it replaces
								c.UpdSec = 2    // UpdateTTL shorter than FailedUpdateTTL: the refreshed stale copy expires inside the window
							}

							if ft < 0 {
								c.FTNeg = true
							} else {
								c.FTSec = ft
							}

							cells = append(cells, Cell{ID: c.ID()})
						}
					}
				}
			}
		}
	}

	// the window sequences once more with SyncRead on (the read that decides "fresh" is then the one inside the critical
	// section), starting with a successful build - of a value or of nil
	for front := 0; front < 3; front++ {
		for _, su := range []bool{false, true} {
			for _, init := range []string{"A", "S"} {
				for _, first := range []int{0, 13} {
					// (sequences of 4 in both tiers: at 5 these cells need more memory than a worker should take)
					c := FCfg{Front: front, SU: su, SR: true, MS: true, Init: init + "A", FailC: "00", Rand: 1, BCount: 1, Tags: []string{"window", "4", fmt.Sprint(first)}}
					cells = append(cells, Cell{ID: c.ID()})
				}
			}
		}
	}

	return cells
}

func c05FT(cfg FCfg) time.Duration {
	switch {
	case cfg.FTNeg:
		return -1
	case cfg.FTSec != 0:
		return time.Duration(cfg.FTSec) * time.Second
	}

	return failedTTL
}

func c05Alphabet(ft int) []string {
	return []string{"Get(ok)", "Get(fail)", "Advance(1s)", "Advance(FT*0.95-16ns)", "Advance(FT*1.05+1ns)", "ExpireAll(backend)", "Get(fail, caller context already cancelled)",
		"Get(fail, caller context carries TTL 1s)", "Get(ok, caller context carries TTL 1h)",
		"Get(fail) of another key", "cleanup cycle of the failure cache", "Get(ok, the builder returns the cached value again)",
		"Get(fail, the builder's error is a timeout of its own: matches context.DeadlineExceeded)",
		"Get(ok, the builder's result is a nil value)"}
}

func c05Burst(cfg FCfg, env *Env) CellResult {
	opt := vsched.Options{PreemptionBound: 2, EnvBound: 0, HBCache: true}
	if env.Thorough() {
		opt = vsched.Options{PreemptionBound: -1, EnvBound: 0, HBCache: true, MaxExecs: 5000000}
	}

	front := frontNames[cfg.Front]
	slow := len(cfg.Tags) > 1 && cfg.Tags[1] == "slow"
	lateBuilds := 0

	var post func(h *fh)

	if slow {
		post = func(h *fh) {
			nb := h.nbuild[0]

			vclock.Advance(updateTTL + 2*time.Second)

			_, _, _, _ = h.front.Get(context.Background(), append([]byte(nil), h.keys[0]...), h.builder(0))
			vsched.Join()

			lateBuilds = h.nbuild[0] - nb
		}
	}

	return exploreF(cfg, env, opt, post, func(h *fh, r *vsched.Result) []Violation {
		var vs []Violation

		if slow && lateBuilds != 0 {
			vs = append(vs, Violation{Signature: fmt.Sprintf("C05 %s rebuild-while-fresh-after-burst init=%c", front, cfg.Init[0]),
				Detail: fmt.Sprintf("a Get %v after a SyncRead burst whose (slow) build succeeded invoked the builder %d more times: the built value is fresh for the backend TTL of %v", updateTTL+2*time.Second, lateBuilds, backendTTL)})
		}

		want := 1
		if cfg.Init[0] == 'F' {
			want = 0
		}

		okBuilds, failBuilds := 0, 0

		for i, e := range h.log {
			if slow && i >= h.burstEnd && h.burstEnd > 0 {
				break // the late Get is judged above
			}

			if e.Kind == "build-end" && e.Key == 0 {
				if e.Err == nil {
					okBuilds++
				} else {
					failBuilds++
				}
			}
		}

		if cfg.Script == "o" && okBuilds != want {
			vs = append(vs, Violation{Signature: fmt.Sprintf("C05 %s redundant-build init=%c", front, cfg.Init[0]),
				Detail: fmt.Sprintf("SyncRead burst of %d Gets on a key in state %c cost %d successful builds, want exactly %d", countGets(cfg), cfg.Init[0], okBuilds, want)})
		}

		if cfg.Script == "f" && failBuilds != want {
			vs = append(vs, Violation{Signature: fmt.Sprintf("C05 %s failing-burst init=%c", front, cfg.Init[0]),
				Detail: fmt.Sprintf("SyncRead burst of %d Gets with a failing builder invoked it %d times, want exactly %d (failure is cached)", countGets(cfg), failBuilds, want)})
		}

		return vs
	})
}

func countGets(cfg FCfg) int {
	n := 0
	for _, t := range cfg.Threads {
		n += len(t)
	}

	return n
}

type c05Ev struct {
	op        string
	at        time.Time
	built     bool
	failed    bool
	res       string
	hourTTL   bool // a Get whose caller context carries a TTL of one hour
	expireAll bool // not a Get: the backend's entries were expired
}

// c05Window enumerates all operation sequences of the given length that start with ops[first].
func c05Window(cfg FCfg, env *Env) CellResult {
	res := CellResult{Exhaustive: true, Outcomes: map[string]int{}}

	var maxLen, first int
	fmt.Sscan(cfg.Tags[1], &maxLen)
	fmt.Sscan(cfg.Tags[2], &first)

	ft := c05FT(cfg)
	ops := c05Alphabet(0)
	front := frontNames[cfg.Front]
	rnd := cfg.Rand - 1
	// Effective suppression window: FailedUpdateTTL * (1 + 0.1*(rand-0.5)), the failure cache uses the default jitter.
	lower := time.Duration(float64(ft) * 0.95)

	runSeq := func(seq []int) []Violation {
		var (
			h    *fh
			evs  []c05Ev
			viol []Violation
		)

		body := func() {
			h = newFH(cfg)

			for _, o := range seq {
				switch o {
				case 0, 1, 6, 7, 8, 11, 12, 13:
					h.cfg.Script = "o"
					if o != 0 && o != 8 && o != 11 && o != 13 {
						h.cfg.Script = "f"
					}

					if o == 13 {
						h.cfg.Script = "n" // negative caching: "nothing there" is a result, and it is cached like one
					}

					if o == 12 {
						h.cfg.Script = "c" // whatever the error looks like, it is the builder that failed
					}

					if o == 11 {
						h.cfg.Script = "s" // a successful build whose result equals what is cached (ObserveMutability sees "unchanged")
					}

					gctx := context.Background()

					// the TTL a caller asks for governs the value it gets built, not how long a failure is remembered
					switch o {
					case 7:
						gctx = cache.WithTTL(gctx, time.Second, false)
					case 8:
						gctx = cache.WithTTL(gctx, time.Hour, false)
					}

					if o == 6 {
						// the statement's "after a builder failure" does not depend on why the caller stopped caring
						c, cancel := context.WithCancel(gctx)
						cancel()

						gctx = c
					}

					nb := h.nbuild[0]
					key := append([]byte(nil), h.keys[0]...)
					t, isNil, _, err := h.front.Get(gctx, key, h.builder(0))
					vsched.Join()

					e := c05Ev{op: ops[o], at: vclock.NowQuiet(), built: h.nbuild[0] > nb, failed: o != 0 && o != 8 && o != 11 && o != 13 && h.nbuild[0] > nb, hourTTL: o == 8}

					switch {
					case err != nil:
						e.res = "E:" + err.Error()
					case isNil:
						e.res = "nil"
					default:
						e.res = t.String()
					}

					evs = append(evs, e)
				case 2:
					vclock.Advance(time.Second)
				case 3:
					if ft > 0 {
						vclock.Advance(lower - 16*time.Nanosecond) // leaves room for the 1ns ticks of up to 5 operations
					}
				case 4:
					if ft > 0 {
						vclock.Advance(time.Duration(float64(ft)*1.05) + time.Nanosecond)
					}
				case 9:
					// a failure of another key is remembered too; it must not push this key's failure out
					h.cfg.Script = "f"
					_, _, _, _ = h.front.Get(context.Background(), append([]byte(nil), h.keys[1]...), h.builder(1))
					vsched.Join()
				case 10:
					h.front.ErrorsCleanup()
				case 5:
					h.front.ExpireAll()
					evs = append(evs, c05Ev{op: ops[o], at: vclock.NowQuiet(), expireAll: true})
				}

				vclock.Advance(time.Nanosecond)
			}
		}

		r := vsched.Replay(nil, body)
		res.Execs++
		res.Transitions += len(r.Steps)
		res.States += len(seq)

		if r.Fatal() || r.Panic != nil {
			viol = append(viol, Violation{Signature: fmt.Sprintf("C05 %s window fatal", front), Detail: fmt.Sprintf("deadlock=%v panic=%v", r.Deadlock, r.Panic)})
			return viol
		}

		var (
			lastFail    time.Time
			hasFail     bool
			lastFailErr string
		)

		// noValue: nothing has ever been stored for the key, so neither a stale nor a refreshed copy can be served
		noValue := cfg.Init[0] == 'A'

		// a value built under a caller TTL of one hour stays fresh for that hour (unless everything is expired by hand):
		// no builder invocation in between, whatever the update and failure TTLs are
		var freshUntil time.Time

		for _, e := range evs {
			if e.expireAll {
				freshUntil = time.Time{}
				continue
			}

			if e.built && e.at.Before(freshUntil) {
				viol = append(viol, Violation{Signature: fmt.Sprintf("C05 %s rebuild-while-fresh", front),
					Detail: fmt.Sprintf("builder invoked at %v although the value built last is fresh until %v (its TTL: the caller's 1h, else the backend's 5m)", e.at.Sub(vclock.Epoch), freshUntil.Sub(vclock.Epoch))})
			}

			if e.built && !e.failed {
				// a successful build is fresh for the TTL it was stored with: the caller's, else the backend's
				freshUntil = e.at.Add(backendTTL - time.Second)

				if e.hourTTL {
					freshUntil = e.at.Add(time.Hour - time.Second)
				}
			}

			if hasFail && ft > 0 && e.built && e.at.Sub(lastFail) < lower {
				viol = append(viol, Violation{Signature: fmt.Sprintf("C05 %s early-rebuild-after-failure", front),
					Detail: fmt.Sprintf("builder invoked %v after a failure, FailedUpdateTTL=%v allows it only after %v", e.at.Sub(lastFail), ft, lower)})
			}

			if hasFail && ft > 0 && !e.built && e.at.Sub(lastFail) < lower && noValue && strings.HasPrefix(e.res, "E:") && e.res != lastFailErr {
				viol = append(viol, Violation{Signature: fmt.Sprintf("C05 %s different-error-in-window", front),
					Detail: fmt.Sprintf("Get inside the suppression window returned %s, the cached failure is %s", e.res, lastFailErr)})
			}

			if hasFail && ft > 0 && e.at.Sub(lastFail) < lower && noValue && !strings.HasPrefix(e.res, "E:") {
				viol = append(viol, Violation{Signature: fmt.Sprintf("C05 %s value-in-window", front),
					Detail: fmt.Sprintf("Get inside the suppression window returned %s although nothing is cached for the key but the failure", e.res)})
			}

			if ft < 0 && noValue && hasFail && !e.built {
				// FailedUpdateTTL=-1: the next Get that finds no fresh value must build again.
				viol = append(viol, Violation{Signature: fmt.Sprintf("C05 %s no-rebuild-with-failure-cache-disabled", front),
					Detail: "FailedUpdateTTL=-1 but a Get that found no fresh value did not invoke the builder after a failure"})
			}

			if e.failed {
				lastFail, hasFail, lastFailErr = e.at, true, e.res
			} else if e.built {
				hasFail = false
				noValue = false
			}
		}

		var names []string
		for _, o := range seq {
			names = append(names, ops[o])
		}

		for i := range viol {
			viol[i].Detail += "\n  sequence: " + strings.Join(names, "; ") + fmt.Sprintf(" (rand=%v)", rnd)
		}

		if len(viol) == 0 {
			var oc []string
			for _, e := range evs {
				oc = append(oc, fmt.Sprintf("%v/%v", e.built, strings.HasPrefix(e.res, "E:")))
			}

			res.Outcomes[strings.Join(oc, " ")]++

			if res.Sample == nil && len(seq) == maxLen {
				res.Sample = map[string]interface{}{"sequence": names, "rand": rnd, "failed_update_ttl": ft.String()}
			}
		}

		return viol
	}

	seen := map[string]bool{}

	var rec func(seq []int)
	rec = func(seq []int) {
		if !res.Exhaustive {
			return
		}

		if time.Now().After(env.Deadline) {
			// the check's budget is used up: what was enumerated so far stands, the rest of the cell is reported as not covered
			res.Exhaustive, res.CapHit = false, "deadline"
			return
		}

		for _, v := range runSeq(seq) {
			if !seen[v.Signature] {
				seen[v.Signature] = true
				res.Violations = append(res.Violations, v)
			}
		}

		if len(seq) == maxLen {
			return
		}

		for o := range ops {
			rec(append(append([]int{}, seq...), o))
		}
	}

	rec([]int{first})
	res.MaxDepth = maxLen

	return res
}

func c05Run(c Cell, env *Env) CellResult {
	cfg := parseFCfg(c.ID)
	if cfg.Tags[0] == "window" {
		return c05Window(cfg, env)
	}

	return c05Burst(cfg, env)
}

func init() {
	Register(&Prop{
		ID: "C05", Title: "Build economy: SyncRead single-flight and cached failures suppress rebuilds",
		Cells: c05Cells, Run: c05Run,
		Rule: "(a,c) SyncRead bursts: 2-3 threads x 1-2 Gets on one key in state {absent, stale, too stale, fresh}, builder ok / failing, SU x FH x MS x 3 front-ends, all schedules within the bound: exactly one (successful / failing) build per burst; " +
			"(b) all sequences of <=4 operations (both tiers) over {Get(ok), Get(ok) whose builder result is nil, Get(fail), Get(fail) under an already cancelled caller context, Get(fail) under a caller TTL of 1s, Get(ok) under a caller TTL of 1h, Get(fail) of another key, a cleanup cycle of the internal failure cache, Get(ok) whose builder returns the cached value again (ObserveMutability on in some cells), Get(fail) whose builder error matches context.DeadlineExceeded, Advance 1s, Advance FT*0.95-1ns, Advance FT*1.05+1ns, ExpireAll(backend)} for FailedUpdateTTL {20s, 5s, -1} with the jitter answer at both extremes and the middle: " +
			"no builder entry before t_fail + FT*(1-J/2), same error inside the window, rebuild on every Get with FT=-1",
		Assumptions: []string{
			"a burst happens at one virtual instant, so the built result stays fresh for its whole duration",
			"contexts carrying SkipRead are outside the statement's quantifier and are not used here; cancelled caller contexts and caller TTLs are (window sequences: a caller TTL neither shortens the failure window nor the freshness of the value built under it)",
			"quick: preemption bound 2; thorough: unbounded with happens-before caching (safety cap 5M executions per cell, reported if hit)",
		},
	})
}
