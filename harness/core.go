// Package harness holds one driver + oracle per property and the coordinator that shards a
// property's scenario cells over worker processes, collects what they covered and writes evidence.
package harness

import (
	"bufio"
	"encoding/json"
	"fmt"
	"os"
	"os/exec"
	"path/filepath"
	"runtime"
	"runtime/pprof"
	"sort"
	"strconv"
	"strings"
	"syscall"
	"time"

	"verif/vsched"
)

// Cell is one scenario of a property: a point of its configuration/input table that is explored
// exhaustively (all schedules within the bound, all sequences up to the depth, ...).
type Cell struct {
	ID string `json:"id"`
}

// Violation is one oracle failure.
type Violation struct {
	Property  string          `json:"property"`
	Signature string          `json:"signature"` // classifies the failure; known findings match on it
	Cell      string          `json:"cell"`
	Tier      string          `json:"tier,omitempty"` // tier the violation was found in (alphabets may differ between tiers)
	Detail    string          `json:"detail"`
	Choices   []int8          `json:"choices,omitempty"`
	Extra     json.RawMessage `json:"extra,omitempty"`
	Trace     string          `json:"trace,omitempty"`
}

// CellResult is what exploring one cell covered.
type CellResult struct {
	Cell        string         `json:"cell"`
	Execs       int            `json:"execs"`
	Transitions int            `json:"transitions"`
	States      int            `json:"states"`
	MaxDepth    int            `json:"max_depth"`
	Exhaustive  bool           `json:"exhaustive"`
	CapHit      string         `json:"cap_hit,omitempty"`
	Bound       string         `json:"bound,omitempty"`
	Outcomes    map[string]int `json:"outcomes,omitempty"`
	Violations  []Violation    `json:"violations,omitempty"`
	Sample      interface{}    `json:"sample,omitempty"`
	Skipped     string         `json:"skipped,omitempty"`
	WallS       float64        `json:"wall_s"`
}

// Env is what a cell run gets from the worker.
type Env struct {
	Tier     string
	Deadline time.Time
	Replay   *Violation // non-nil: replay exactly this violation and print what happens
	Verbose  bool
}

// Thorough reports whether the thorough tier runs.
func (e *Env) Thorough() bool { return e.Tier == "thorough" }

// Prop is a property's machinery.
type Prop struct {
	ID          string
	Title       string
	Cells       func(tier string) []Cell
	Run         func(c Cell, env *Env) CellResult
	Assumptions []string
	Rule        string
	// Race marks properties that must run in a -race build.
	Race bool
	// QuickBudget / ThoroughBudget are wall-clock watchdogs for the whole check; when they expire the
	// remaining cells are reported as not explored (exhaustive=false), never as violations.
	QuickBudget    time.Duration
	ThoroughBudget time.Duration
	// MaxWorkers limits parallelism (0 = all cores).
	MaxWorkers int
}

var registry = map[string]*Prop{}

// Register adds a property.
func Register(p *Prop) { registry[p.ID] = p }

// Lookup finds a property.
func Lookup(id string) *Prop { return registry[id] }

// IDs lists the registered properties.
func IDs() []string {
	var ids []string
	for id := range registry {
		ids = append(ids, id)
	}

	sort.Strings(ids)

	return ids
}

// ---------------------------------------------------------------------------------------------
// Known findings

type finding struct {
	kind     string // finding | fixed
	property string
	pattern  string
	exact    string
	text     string
}

func loadFindings(path string) []finding {
	f, err := os.Open(path)
	if err != nil {
		return nil
	}
	defer f.Close()

	var res []finding

	sc := bufio.NewScanner(f)
	for sc.Scan() {
		line := strings.TrimSpace(sc.Text())
		if line == "" || strings.HasPrefix(line, "#") {
			continue
		}

		// finding: property=C07 signature=<glob> <free text>
		// fixed: property=C07 <commit> <free text>
		kind, rest, ok := strings.Cut(line, ":")
		if !ok {
			continue
		}

		fd := finding{kind: strings.TrimSpace(kind), text: strings.TrimSpace(rest)}

		for _, w := range strings.Fields(rest) {
			if v, ok := strings.CutPrefix(w, "property="); ok {
				fd.property = v
			}

			if v, ok := strings.CutPrefix(w, "signature="); ok {
				fd.pattern = v
			}

			// exact=<signature with ~ for spaces>: literal comparison (signatures may contain glob metacharacters)
			if v, ok := strings.CutPrefix(w, "exact="); ok {
				fd.exact = strings.ReplaceAll(v, "~", " ")
			}
		}

		res = append(res, fd)
	}

	return res
}

func matchFinding(fs []finding, v Violation) *finding {
	for i := range fs {
		f := &fs[i]
		if f.kind != "finding" || f.property != v.Property {
			continue
		}

		if f.exact != "" && f.exact == v.Signature {
			return f
		}

		if f.pattern == "" {
			continue
		}

		if ok, _ := filepath.Match(f.pattern, v.Signature); ok {
			return f
		}
	}

	return nil
}

// ---------------------------------------------------------------------------------------------
// Worker

// WorkerMain runs the cells of shard i/n and writes the results as JSON lines.
func WorkerMain(p *Prop, tier string, shard, nshards int, out string, deadline time.Time) {
	cells := p.Cells(tier)

	f, err := os.Create(out)
	if err != nil {
		vsched.Fatalf("%v", err)
	}
	defer f.Close()

	w := bufio.NewWriter(f)
	enc := json.NewEncoder(w)
	env := &Env{Tier: tier, Deadline: deadline}

	for {
		i := nextCell(filepath.Join(filepath.Dir(out), "next"), shard, nshards, len(cells))
		if i < 0 {
			break
		}

		c := cells[i]

		if time.Now().After(deadline) {
			_ = enc.Encode(CellResult{Cell: c.ID, Exhaustive: false, CapHit: "check budget exhausted before this cell was started", Skipped: "budget"})
			_ = w.Flush()

			continue
		}

		_ = os.WriteFile(out+".cur", []byte(c.ID), 0o644)

		start := time.Now()
		r := p.Run(c, env)
		r.Cell = c.ID
		r.WallS = time.Since(start).Seconds()

		for j := range r.Violations {
			r.Violations[j].Property = p.ID
			r.Violations[j].Cell = c.ID
			r.Violations[j].Tier = tier
		}

		_ = enc.Encode(r)
		_ = w.Flush()
	}

	_ = os.Remove(out + ".cur")

	if hp := os.Getenv("VERIF_HEAPPROF"); hp != "" {
		if f, err := os.Create(hp); err == nil {
			runtime.GC()
			_ = pprof.WriteHeapProfile(f)
			f.Close()
		}
	}
}

// nextCell hands out cell indices to the workers of one check: a counter file next to the result files,
// advanced under flock (cells differ a lot in cost, so static striding leaves most cores idle).
var localNext = -1

func nextCell(path string, shard, nshards, n int) int {
	f, err := os.OpenFile(path, os.O_RDWR, 0)
	if err != nil {
		// no shared counter (stand-alone worker): static striding
		if localNext < 0 {
			localNext = shard
		} else {
			localNext += nshards
		}

		if localNext >= n {
			return -1
		}

		return localNext
	}
	defer f.Close()

	if err := syscall.Flock(int(f.Fd()), syscall.LOCK_EX); err != nil {
		vsched.Fatalf("flock: %v", err)
	}
	defer syscall.Flock(int(f.Fd()), syscall.LOCK_UN) //nolint:errcheck

	buf := make([]byte, 32)
	k, _ := f.ReadAt(buf, 0)
	i, _ := strconv.Atoi(strings.TrimSpace(string(buf[:k])))

	if i >= n {
		return -1
	}

	_, _ = f.WriteAt([]byte(fmt.Sprintf("%-31d", i+1)), 0)

	return i
}

// ---------------------------------------------------------------------------------------------
// Coordinator

// Evidence is the evidence file (EVIDENCE.schema.json).
type Evidence struct {
	PropertyID  string                 `json:"property_id"`
	Tier        string                 `json:"tier"`
	Seed        int                    `json:"seed"`
	Level       string                 `json:"level"`
	Coverage    map[string]interface{} `json:"coverage"`
	Assumptions []string               `json:"assumptions"`
	WallS       float64                `json:"wall_s"`
	Violations  int                    `json:"violations"`
}

// Coordinate runs all cells of the property over worker processes, prints VIOLATION / KNOWN-FINDING
// lines, writes the evidence file and returns the process exit code.
func Coordinate(p *Prop, tier string, verifDir string, workers int) int {
	start := time.Now()
	cells := p.Cells(tier)

	budget := p.QuickBudget
	if tier == "thorough" {
		budget = p.ThoroughBudget
	}

	if budget == 0 {
		budget = 10 * time.Minute
		if tier == "thorough" {
			budget = 60 * time.Minute
		}
	}

	if v := os.Getenv("VERIF_BUDGET_S"); v != "" {
		if n, err := strconv.Atoi(v); err == nil {
			budget = time.Duration(n) * time.Second
		}
	}

	deadline := start.Add(budget)

	if workers <= 0 {
		workers = 16
	}

	if p.MaxWorkers > 0 && workers > p.MaxWorkers {
		workers = p.MaxWorkers
	}

	if workers > len(cells) {
		workers = len(cells)
	}

	if workers < 1 {
		workers = 1
	}

	tmp, err := os.MkdirTemp("", "vh-"+p.ID+"-")
	if err != nil {
		vsched.Fatalf("%v", err)
	}
	defer os.RemoveAll(tmp)

	self, _ := os.Executable()

	if err := os.WriteFile(filepath.Join(tmp, "next"), []byte(fmt.Sprintf("%-31d", 0)), 0o644); err != nil {
		vsched.Fatalf("%v", err)
	}

	type wres struct {
		idx    int
		err    error
		stderr string
	}

	done := make(chan wres, workers)

	for i := 0; i < workers; i++ {
		go func(i int) {
			out := filepath.Join(tmp, fmt.Sprintf("w%d.jsonl", i))
			args := []string{self, "worker", p.ID, tier, strconv.Itoa(i), strconv.Itoa(workers), out,
				strconv.FormatInt(deadline.UnixNano(), 10)}
			if ts, err := exec.LookPath("taskset"); err == nil {
				// One worker per CPU: unpinned, the runtime's helper threads migrate and 16 spinning
				// processes spend most of their time in the kernel.
				args = append([]string{ts, "-c", strconv.Itoa(i % runtime.NumCPU())}, args...)
			}

			cmd := exec.Command(args[0], args[1:]...)
			cmd.Env = append(os.Environ(), "GOMAXPROCS=1", "GOMEMLIMIT=2GiB", "GOGC=50")

			if p.Race {
				logp := filepath.Join(tmp, fmt.Sprintf("race%d", i))
				cmd.Env = append(cmd.Env, "GORACE=halt_on_error=0 exitcode=0 suppress_equal_stacks=0 suppress_equal_addresses=0 log_path="+logp, "VERIF_RACE_LOG="+logp)
			}

			var eb strings.Builder
			cmd.Stderr = &eb
			cmd.Stdout = &eb

			// Hard watchdog: budget + grace. A worker killed here is a harness problem, not a violation.
			timer := time.AfterFunc(time.Until(deadline)+90*time.Second, func() { _ = cmd.Process.Kill() })
			err := cmd.Run()
			timer.Stop()

			done <- wres{idx: i, err: err, stderr: eb.String()}
		}(i)
	}

	var (
		results   []CellResult
		crashes   []string
		harnessKO []string
	)

	for n := 0; n < workers; n++ {
		r := <-done
		out := filepath.Join(tmp, fmt.Sprintf("w%d.jsonl", r.idx))

		if f, err := os.Open(out); err == nil {
			dec := json.NewDecoder(f)

			for {
				var cr CellResult
				if err := dec.Decode(&cr); err != nil {
					break
				}

				results = append(results, cr)
			}

			f.Close()
		}

		if r.err != nil {
			cur, _ := os.ReadFile(out + ".cur")
			msg := fmt.Sprintf("worker %d died (%v) in cell %q:\n%s", r.idx, r.err, string(cur), tail(r.stderr, 60))

			ee, isExit := r.err.(*exec.ExitError)
			code := -1

			if isExit {
				code = ee.ExitCode()
			}

			if p.CrashIsViolation(code, r.stderr) && len(cur) > 0 {
				crashes = append(crashes, string(cur)+"\x00"+r.stderr)
			} else {
				harnessKO = append(harnessKO, msg)
			}
		}
	}

	sort.Slice(results, func(i, j int) bool { return results[i].Cell < results[j].Cell })

	findings := loadFindings(filepath.Join(verifDir, "known_findings.txt"))
	replayDir := filepath.Join(verifDir, "replays")
	_ = os.MkdirAll(replayDir, 0o755)

	var (
		tot         = CellResult{Exhaustive: true, Outcomes: map[string]int{}}
		nviol       int
		known       = map[string]int{}
		samples     []interface{}
		caps        []string
		skipped     int
		printedSigs = map[string]bool{}
		exit        = 0
	)

	for _, r := range results {
		tot.Execs += r.Execs
		tot.Transitions += r.Transitions
		tot.States += r.States

		if r.MaxDepth > tot.MaxDepth {
			tot.MaxDepth = r.MaxDepth
		}

		if !r.Exhaustive {
			tot.Exhaustive = false

			if r.Skipped != "" {
				skipped++
			} else {
				caps = append(caps, r.Cell+": "+r.CapHit)
			}
		}

		for k, n := range r.Outcomes {
			tot.Outcomes[k] += n
		}

		if r.Sample != nil && len(samples) < 6 {
			samples = append(samples, map[string]interface{}{"cell": r.Cell, "sample": r.Sample})
		}

		for _, v := range r.Violations {
			if f := matchFinding(findings, v); f != nil {
				known[f.text]++
				continue
			}

			nviol++

			if printedSigs[v.Signature] {
				continue
			}

			printedSigs[v.Signature] = true
			path := writeReplay(replayDir, v)
			fmt.Printf("VIOLATION property=%s replay=%s\n", p.ID, path)
			fmt.Printf("  signature: %s\n  cell: %s\n  detail: %s\n", v.Signature, v.Cell, firstLines(v.Detail, 12))

			exit = 1
		}
	}

	for _, c := range crashes {
		cell, stderr, _ := strings.Cut(c, "\x00")
		v := Violation{Property: p.ID, Cell: cell, Signature: p.ID + " crash " + crashKind(stderr), Detail: tail(stderr, 80)}

		if f := matchFinding(findings, v); f != nil {
			known[f.text]++
			continue
		}

		nviol++
		path := writeReplay(replayDir, v)
		fmt.Printf("VIOLATION property=%s replay=%s\n", p.ID, path)
		fmt.Printf("  signature: %s\n  cell: %s\n  detail: %s\n", v.Signature, v.Cell, firstLines(v.Detail, 30))

		exit = 1
		tot.Exhaustive = false
	}

	var kf []string
	for k := range known {
		kf = append(kf, k)
	}

	sort.Strings(kf)

	for _, k := range kf {
		fmt.Printf("KNOWN-FINDING: %s (seen in %d explored cases)\n", k, known[k])
	}

	if len(harnessKO) > 0 {
		tot.Exhaustive = false

		for _, m := range harnessKO {
			fmt.Fprintf(os.Stderr, "HARNESS-PROBLEM: %s\n", m)
		}

		if exit == 0 {
			exit = 2
		}
	}

	missing := len(cells) - len(results)
	if missing > 0 {
		tot.Exhaustive = false
	}

	wall := time.Since(start).Seconds()

	if len(samples) == 0 {
		samples = append(samples, "no cell produced a sample")
	}

	distinct := len(tot.Outcomes)
	cov := map[string]interface{}{
		"states":                        maxInt(tot.States, 1),
		"transitions":                   maxInt(tot.Transitions, 1),
		"traces_validated_against_impl": tot.Execs,
		"samples":                       samples,
		"exhaustive":                    tot.Exhaustive,
		"evaluations":                   tot.Execs,
		"distinct_nontrivial":           distinct,
		"rule":                          p.Rule,
		"cells":                         len(cells),
		"cells_completed":               len(results) - skipped,
		"cells_not_started_budget":      skipped,
		"cells_lost":                    missing,
		"max_depth":                     tot.MaxDepth,
		"distinct_outcomes":             distinct,
		"outcome_histogram":             topOutcomes(tot.Outcomes, 40),
		"caps_hit":                      headStrings(caps, 20),
		"known_findings_seen":           kf,
		"workers":                       workers,
		"explanation": "every execution/transition counted here ran the real (instrumented) implementation; " +
			"the reference model is evaluated in lock-step inside the same process, so every explored trace is a trace of the implementation",
	}

	ev := Evidence{
		PropertyID: p.ID, Tier: tier, Seed: seedFromEnv(), Level: "model_checking", Coverage: cov,
		Assumptions: p.Assumptions, WallS: wall, Violations: nviol,
	}

	js, _ := json.MarshalIndent(ev, "", " ")
	evPath := filepath.Join(verifDir, "evidence", p.ID+".json")
	if alt := os.Getenv("VERIF_EVIDENCE_DIR"); alt != "" {
		// a run against a stand-in tree (seeded change in a scratch worktree) must not overwrite the evidence of /repo
		_ = os.MkdirAll(alt, 0o755)
		evPath = filepath.Join(alt, p.ID+".json")
	}
	_ = os.MkdirAll(filepath.Dir(evPath), 0o755)

	if err := os.WriteFile(evPath, append(js, '\n'), 0o644); err != nil {
		fmt.Fprintf(os.Stderr, "cannot write evidence: %v\n", err)

		if exit == 0 {
			exit = 2
		}
	}

	fmt.Printf("%s %s: cells=%d executions=%d states=%d transitions=%d outcomes=%d exhaustive=%v violations=%d known=%d wall=%.1fs\n",
		p.ID, tier, len(cells), tot.Execs, tot.States, tot.Transitions, distinct, tot.Exhaustive, nviol, len(kf), wall)

	return exit
}

// CrashIsViolation decides whether a dead worker is a property violation (runtime fatal error such as
// concurrent map access, race detector halt) or a harness problem.
func (p *Prop) CrashIsViolation(code int, stderr string) bool {
	if strings.Contains(stderr, "HARNESS-ERROR") || strings.Contains(stderr, "NONDETERMINISM") {
		return false
	}

	if code == 66 || strings.Contains(stderr, "WARNING: DATA RACE") {
		return true
	}

	if strings.Contains(stderr, "fatal error: concurrent map") {
		return true
	}

	if strings.Contains(stderr, "panic:") || strings.Contains(stderr, "fatal error: all goroutines are asleep") {
		return true
	}

	return false
}

func crashKind(stderr string) string {
	for _, l := range strings.Split(stderr, "\n") {
		if strings.HasPrefix(l, "fatal error:") || strings.HasPrefix(l, "panic:") || strings.Contains(l, "WARNING: DATA RACE") {
			return strings.TrimSpace(l)
		}
	}

	return "unknown"
}

func writeReplay(dir string, v Violation) string {
	js, _ := json.MarshalIndent(v, "", " ")
	h := uint64(14695981039346656037)

	for _, b := range []byte(v.Signature + v.Cell) {
		h = (h ^ uint64(b)) * 1099511628211
	}

	path := filepath.Join(dir, fmt.Sprintf("%s-%012x.json", v.Property, h&0xffffffffffff))
	_ = os.WriteFile(path, append(js, '\n'), 0o644)

	return path
}

func seedFromEnv() int {
	n, _ := strconv.Atoi(os.Getenv("VERIF_SEED"))
	return n
}

func maxInt(a, b int) int {
	if a > b {
		return a
	}

	return b
}

func tail(s string, n int) string {
	lines := strings.Split(strings.TrimRight(s, "\n"), "\n")
	if len(lines) > n {
		lines = lines[len(lines)-n:]
	}

	return strings.Join(lines, "\n")
}

func firstLines(s string, n int) string {
	lines := strings.Split(strings.TrimRight(s, "\n"), "\n")
	if len(lines) > n {
		lines = append(lines[:n], "...")
	}

	return strings.Join(lines, "\n    ")
}

func headStrings(s []string, n int) []string {
	if len(s) > n {
		return append(s[:n:n], fmt.Sprintf("... and %d more", len(s)-n))
	}

	if s == nil {
		return []string{}
	}

	return s
}

func topOutcomes(m map[string]int, n int) map[string]int {
	type kv struct {
		k string
		v int
	}

	var l []kv
	for k, v := range m {
		l = append(l, kv{k, v})
	}

	sort.Slice(l, func(i, j int) bool {
		if l[i].v != l[j].v {
			return l[i].v > l[j].v
		}

		return l[i].k < l[j].k
	})

	res := map[string]int{}

	for i, e := range l {
		if i >= n {
			break
		}

		res[e.k] = e.v
	}

	return res
}

// ReplayFile re-runs the violation stored in path and prints what happens.
func ReplayFile(path string) int {
	js, err := os.ReadFile(path)
	if err != nil {
		fmt.Fprintln(os.Stderr, err)
		return 2
	}

	var v Violation
	if err := json.Unmarshal(js, &v); err != nil {
		fmt.Fprintln(os.Stderr, err)
		return 2
	}

	p := Lookup(v.Property)
	if p == nil {
		fmt.Fprintf(os.Stderr, "unknown property %q\n", v.Property)
		return 2
	}

	tier := v.Tier
	if tier == "" {
		tier = "quick"
	}

	env := &Env{Tier: tier, Deadline: time.Now().Add(time.Hour), Replay: &v, Verbose: true}
	r := p.Run(Cell{ID: v.Cell}, env)

	for _, nv := range r.Violations {
		fmt.Printf("REPRODUCED signature=%s\n  detail: %s\n%s\n", nv.Signature, nv.Detail, nv.Trace)
	}

	if len(r.Violations) == 0 {
		fmt.Println("NOT REPRODUCED: the recorded execution satisfies the oracle on this tree")
		return 0
	}

	return 1
}

// mustReproduce replays the schedule of a violation twice and aborts with a NONDETERMINISM harness error
// (exit 2, never a VIOLATION) unless the same signature is reported both times: the same schedule must
// fail every time before a failure is believed.
func mustReproduce(sig string, choices []int8, body func(), check func(r *vsched.Result) []Violation) {
	for i := 0; i < 2; i++ {
		rr := vsched.Replay(choices, body)
		same := false

		for _, v := range check(rr) {
			if v.Signature == sig {
				same = true
			}
		}

		if !same {
			vsched.Fatalf("NONDETERMINISM: violation %q did not reproduce when its schedule was replayed", sig)
		}
	}
}
