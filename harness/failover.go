package harness

import (
	"context"
	"encoding/json"
	"errors"
	"fmt"
	"strings"
	"time"
	"unsafe"

	"github.com/bool64/cache"

	"verif/vclock"
	"verif/vsched"
)

// Tok is the value alphabet of the Failover harnesses: every value says which key it belongs to and
// where it came from, so a value of another key, a zero value and a fabricated value are distinguishable.
type Tok struct {
	K string // key name
	O string // origin: "pre" preloaded, "b" built
	N int    // builder invocation index (per key)
}

func (t Tok) String() string { return fmt.Sprintf("%s:%s%d", t.K, t.O, t.N) }

// TokErr is a builder error token.
type TokErr struct {
	K string
	N int
}

func (e *TokErr) Error() string { return fmt.Sprintf("builderr(%s#%d)", e.K, e.N) }

// FaultErr is an injected backend failure.
type FaultErr struct {
	Op      string
	N       int
	Expired bool // matches cache.ErrExpired (but carries no item)
}

func (e *FaultErr) Error() string {
	if e.Expired {
		return fmt.Sprintf("fault(%s#%d: expired, no item)", e.Op, e.N)
	}

	return fmt.Sprintf("fault(%s#%d)", e.Op, e.N)
}

// Is makes the "expired without an item" flavour match cache.ErrExpired.
func (e *FaultErr) Is(target error) bool { return e.Expired && target == cache.ErrExpired }

// GOp is one Get issued by a harness thread.
type GOp struct {
	Key    int  `json:"k"`
	Skip   bool `json:"skip,omitempty"`   // WithSkipRead
	Mut    bool `json:"mut,omitempty"`    // overwrite the key buffer after Get returned
	Cancel bool `json:"cancel,omitempty"` // cancel the caller's context after Get returned
	TTL    int  `json:"ttl,omitempty"`    // caller TTL in seconds (0 = no TTL cell)
	Reuse  bool `json:"reuse,omitempty"`  // reuse the thread's single key buffer (bench/failover.go pattern)
	TTL0   bool `json:"ttl0,omitempty"`   // caller context carries a TTL cell holding 0
	CBef   bool `json:"cbef,omitempty"`   // cancel the caller's context before Get
	CDur   bool `json:"cdur,omitempty"`   // cancel the caller's context while the build it caused is in flight (done by the builder)
	DL     bool `json:"dl,omitempty"`     // the caller's context carries a deadline
}

// FCfg is one Failover scenario.
type FCfg struct {
	Front   int      `json:"front"` // 0 Failover+ShardedMap, 1 Failover+SyncMap, 2 FailoverOf[Tok]+ShardedMapOf[Tok]
	SU      bool     `json:"su"`
	SR      bool     `json:"sr"`
	FH      bool     `json:"fh"`
	MS      bool     `json:"ms"`    // MaxStaleness 1m (else 0)
	FTNeg   bool     `json:"ftneg"` // FailedUpdateTTL -1
	Init    string   `json:"init"`  // per key: A absent, F fresh, S stale within MaxStaleness, T too stale
	FailC   string   `json:"failc"` // per key: '1' failure cached
	Script  string   `json:"script"`
	Threads [][]GOp  `json:"threads"`
	Faults  bool     `json:"faults,omitempty"`
	BUnl    bool     `json:"bunl,omitempty"`    // the backend is configured with UnlimitedTTL (entries get their expiry from Failover's TTLs only)
	BCount  int      `json:"bcount,omitempty"`  // FailoverConfig.BackendConfig.CountSoftLimit (the backend itself is always given explicitly)
	Callout bool     `json:"callout,omitempty"` // scheduling points in stats/log call-outs
	Follow  bool     `json:"follow,omitempty"`  // C04 follow-up phase
	FTSec   int      `json:"ftsec,omitempty"`   // custom FailedUpdateTTL in seconds
	Rand    float64  `json:"rand,omitempty"`    // fixed rand.Float64 answer + 0 (0 = 0.5 default); see randOf
	Seq     []string `json:"seq,omitempty"`     // sequential scenario (C05b / C03 sequences)
	Collide bool     `json:"collide,omitempty"` // the keys are distinct 64-byte keys with the same xxhash64
	UpdSec  int      `json:"updsec,omitempty"`  // custom UpdateTTL in seconds
	ObsMut  bool     `json:"obsmut,omitempty"`  // ObserveMutability on (a stats tracker is attached)
	Tags    []string `json:"tags,omitempty"`
}

// ID renders the scenario as a cell id.
func (c FCfg) ID() string {
	js, _ := json.Marshal(c)
	return string(js)
}

func parseFCfg(id string) FCfg {
	var c FCfg
	if err := json.Unmarshal([]byte(id), &c); err != nil {
		vsched.Fatalf("bad cell id %q: %v", id, err)
	}

	return c
}

// frontNames: the API x backend product. The first three are used by every Failover property; the cross pairings
// (generic API over the interface{} backends and vice versa) are enumerated where the statement asks for the product.
var frontNames = []string{"Failover+ShardedMap", "Failover+SyncMap", "FailoverOf+ShardedMapOf",
	"FailoverOf[any]+ShardedMap", "FailoverOf[any]+SyncMap", "Failover+ShardedMapOf[any]"}

// FEv is one logged event of an execution.
type FEv struct {
	Seq  int
	Tid  int
	Kind string // get-start get-end build-start build-end read write refresh fault stat log mutate cancel
	Key  int
	Tok  Tok
	Nil  bool // value was nil / zero
	Err  error
	N    int
	TTL  time.Duration
	Ctx  ctxObs
	Name string
	At   time.Time
}

type ctxObs struct {
	Err      error
	DoneNil  bool
	Deadline bool
	Planted  interface{}
	TTL      time.Duration
	Skip     bool
}

func (e FEv) String() string {
	s := fmt.Sprintf("#%d t%d %s k%d", e.Seq, e.Tid, e.Kind, e.Key)

	switch e.Kind {
	case "get-end", "build-end", "read", "write":
		if e.Nil {
			s += " val=<nil/zero>"
		} else {
			s += " val=" + e.Tok.String()
		}

		if e.Err != nil {
			s += " err=" + e.Err.Error()
		}
	case "stat", "log":
		s += " " + e.Name
	}

	if e.TTL != 0 {
		s += fmt.Sprintf(" ttl=%v", e.TTL)
	}

	return s
}

type plantedKey struct{}

// frontAPI abstracts over Failover and FailoverOf[Tok].
type frontAPI interface {
	Get(ctx context.Context, key []byte, b func(context.Context) (Tok, error)) (tok Tok, isNil bool, weird string, err error)
	KeyLocks() int
	WalkFail()      // a Walk over the backend whose callback gives up at the first entry (a dump to a broken writer)
	ErrorsCleanup() // one cleanup cycle of the internal failure cache (what its janitor does periodically)
	SeedFailure(ctx context.Context, key []byte, err error)
	Preload(ctx context.Context, key []byte, v Tok)
	PreloadNil(ctx context.Context, key []byte) // the cached value is nil (the zero value for a typed front-end): negative caching
	Peek(key []byte) (v Tok, isNil bool, expireAt time.Time, found bool)
	WalkKeys() []string
	FailurePeek(key []byte) (error, bool)
	ExpireAll()
}

type fh struct {
	cfg          FCfg
	front        frontAPI
	keys         [][]byte
	names        []string
	log          []FEv
	seq          int
	inflight     [4]int
	nbuild       [4]int
	nread        int
	nwrite       int
	viol         []string
	monitor      int64 // scheduler resource for harness call-outs
	stats        map[string]float64
	nfault       int
	burstEnd     int // number of log events when the scenario's threads had all finished (before any post phase)
	ttlChain     bool
	nilPre       bool              // the preloaded value is nil / the zero value (tag "nilpre")
	nestedDerive bool              // ... with a context it derived from its own (WithTimeout), cancelled afterwards (tag "nested-derive")
	nested       bool              // the builder of key 0 calls Get for key 1 on the same front-end (tag "nested")
	capKey0      bool              // the backend lowers the TTL of every write of key 0 to one second through WithTTL(ctx, 1s, true) (tag "capkey0")
	sideSM       *cache.ShardedMap // caches the builder itself writes to (tag "sidewrite")
	sideOF       *cache.ShardedMapOf[int]
	walkFail     bool              // before the Gets start somebody walks the backend and gives up at the first entry (tag "walkfail")
	slowBuild    bool              // every build lets UpdateTTL+1s of virtual time pass before it returns (tag "slow")
	ttlCalls     []ttlCall         // WithTTL calls the builder performs (C06)
	ctxs         []context.Context // caller contexts of the Gets, in get-end order
	quiet        bool              // record nothing (C16: threads must not share harness state)
	ref          *fhRef
}

type ttlCall struct {
	TTL time.Duration
	Upd bool
}

var keyNames = []string{"alpha-key-000", "bravo-key-111", "gamma-key-222"}

const mutatedKey = "zzzzz-mut-999"

func (h *fh) ev(e FEv) {
	if h.quiet {
		return
	}

	e.Seq = h.seq
	h.seq++
	e.Tid = vsched.Current()
	e.At = vclock.NowQuiet()
	h.log = append(h.log, e)
}

func (h *fh) point(tag uint32) {
	vsched.PointTag(vsched.KCall, unsafe.Pointer(&h.monitor), tag)
}

func (h *fh) keyIndex(k []byte) int {
	for i, n := range h.names {
		if string(k) == n {
			return i
		}
	}

	if string(k) == mutatedKey {
		return 3
	}

	return -1
}

// fault decides (environment choice) whether this backend call fails.
func (h *fh) fault(op string) error {
	if !h.cfg.Faults {
		return nil
	}

	n := h.nfault
	h.nfault++

	// environment answers: 0 the call goes through; 1 it fails with an error of unknown kind (a transport fault);
	// 2 (reads only) it fails with an error that matches cache.ErrExpired but carries no item - ErrExpired "may
	// implement ErrWithExpiredItem", a backend need not provide the stale value
	answers := 2
	if op == "read" {
		answers = 3
	}

	switch vsched.Choose(answers, 0xf0) {
	case 1:
		return &FaultErr{Op: op, N: n}
	case 2:
		return &FaultErr{Op: op, N: n, Expired: true}
	}

	return nil
}

// ---- stats / logger call-outs

// fhRef is the only way from a cache instance (Config.Stats / Config.Logger) back to the harness. It is
// cleared when an execution has been judged: ShardedMap & co carry a finalizer, and a reference cycle
// through an object with a finalizer is never garbage collected (instance -> stats -> harness -> instance).
type fhRef struct{ h *fh }

type fstats struct{ r *fhRef }

func (s fstats) Add(ctx context.Context, name string, inc float64, lv ...string) {
	h := s.r.h
	if h == nil {
		return
	}

	if h.cfg.Callout {
		h.point(0x51)
	}

	h.stats[name+"|"+strings.Join(lv, ",")] += inc
	h.ev(FEv{Kind: "stat", Name: name + "|" + strings.Join(lv, ","), N: int(inc)})
}

func (s fstats) Set(ctx context.Context, name string, v float64, lv ...string) {}

type flogger struct{ r *fhRef }

func (l flogger) Error(ctx context.Context, msg string, kv ...interface{}) { l.out(msg) }
func (l flogger) Warn(ctx context.Context, msg string, kv ...interface{})  { l.out(msg) }
func (l flogger) Debug(ctx context.Context, msg string, kv ...interface{}) { l.out(msg) }
func (l flogger) Important(ctx context.Context, msg string, kv ...interface{}) {
	l.out(msg)
}

func (l flogger) out(msg string) {
	h := l.r.h
	if h == nil {
		return
	}

	if h.cfg.Callout {
		h.point(0x52)
	}

	h.ev(FEv{Kind: "log", Name: msg})
}

// ---- non-generic front end

type bwrap struct {
	h     *fh
	inner cache.ReadWriter
}

func (b *bwrap) Read(ctx context.Context, key []byte) (interface{}, error) {
	if b.h.quiet {
		return b.inner.Read(ctx, key)
	}

	b.h.nread++

	if err := b.h.fault("read"); err != nil {
		b.h.ev(FEv{Kind: "fault", Key: b.h.keyIndex(key), Err: err, Name: "read"})
		return nil, err
	}

	v, err := b.inner.Read(ctx, key)
	e := FEv{Kind: "read", Key: b.h.keyIndex(key), Err: err, Ctx: ctxObs{Skip: cache.SkipRead(ctx)}}

	if t, ok := v.(Tok); ok {
		e.Tok = t
	} else {
		e.Nil = true
	}

	b.h.ev(e)

	return v, err
}

func (b *bwrap) Write(ctx context.Context, key []byte, v interface{}) error {
	if b.h.quiet {
		return b.inner.Write(ctx, key, v)
	}

	b.h.nwrite++

	if err := b.h.fault("write"); err != nil {
		fe := FEv{Kind: "fault", Key: b.h.keyIndex(key), Err: err, Name: "write", TTL: cache.TTL(ctx)}
		fe.Tok, _ = v.(Tok)
		b.h.ev(fe)

		return err
	}

	e := FEv{Kind: "write", Key: b.h.keyIndex(key), TTL: cache.TTL(ctx), Name: string(key)}

	if t, ok := v.(Tok); ok {
		e.Tok = t
	} else {
		e.Nil = true
	}

	b.h.ev(e)

	if b.h.capKey0 && b.h.keyIndex(key) == 0 {
		// a backend that keeps entries of one key for a second at most: it lowers the TTL the documented way
		_ = cache.WithTTL(ctx, time.Second, true)
	}

	return b.inner.Write(ctx, key, v)
}

type walker interface {
	Walk(func(e cache.Entry) error) (int, error)
}

type frontF struct {
	f     *cache.Failover
	inner cache.ReadWriter
}

func (f *frontF) Get(ctx context.Context, key []byte, b func(context.Context) (Tok, error)) (Tok, bool, string, error) {
	v, err := f.f.Get(ctx, key, func(ctx context.Context) (interface{}, error) {
		t, err := b(ctx)
		if err != nil {
			return nil, err
		}

		if t == nilTok {
			return nil, nil
		}

		return t, nil
	})

	if v == nil {
		return Tok{}, true, "", err
	}

	t, ok := v.(Tok)
	if !ok {
		return Tok{}, false, fmt.Sprintf("value of unexpected type %T: %v", v, v), err
	}

	return t, false, "", err
}

func (f *frontF) KeyLocks() int { return f.f.VerifKeyLocks() }

func (f *frontF) WalkFail() {
	_, _ = walkerOf(f.inner).Walk(func(e cache.Entry) error { return errWalkStop })
}

func (f *frontF) ErrorsCleanup() {
	if f.f.Errors != nil {
		f.f.Errors.VerifCleanup()
	}
}

func (f *frontF) ExpireAll() {
	f.inner.(interface{ ExpireAll(context.Context) }).ExpireAll(context.Background())
}

func (f *frontF) SeedFailure(ctx context.Context, key []byte, err error) {
	if f.f.Errors != nil {
		_ = f.f.Errors.Write(ctx, key, err)
	}
}

func (f *frontF) FailurePeek(key []byte) (error, bool) {
	if f.f.Errors == nil {
		return nil, false
	}

	v, err := f.f.Errors.Read(context.Background(), key)
	if err != nil {
		return nil, false
	}

	e, _ := v.(error)

	return e, true
}

func (f *frontF) Preload(ctx context.Context, key []byte, v Tok) { _ = f.inner.Write(ctx, key, v) }
func (f *frontF) PreloadNil(ctx context.Context, key []byte)     { _ = f.inner.Write(ctx, key, nil) }

// walkerOf returns the interface{}-valued Walk of a backend (ShardedMapOf exposes it through WalkDumpRestorer).
func walkerOf(b interface{}) walker {
	if w, ok := b.(walker); ok {
		return w
	}

	return b.(interface {
		WalkDumpRestorer() cache.WalkDumpRestorer
	}).WalkDumpRestorer()
}

func (f *frontF) Peek(key []byte) (Tok, bool, time.Time, bool) {
	var (
		res   Tok
		isNil bool
		at    time.Time
		found bool
	)

	_, _ = walkerOf(f.inner).Walk(func(e cache.Entry) error {
		if string(e.Key()) == string(key) {
			found = true
			at = e.ExpireAt()

			if t, ok := e.Value().(Tok); ok {
				res = t
			} else {
				isNil = true
			}
		}

		return nil
	})

	return res, isNil, at, found
}

func (f *frontF) WalkKeys() []string {
	var ks []string

	_, _ = walkerOf(f.inner).Walk(func(e cache.Entry) error {
		ks = append(ks, string(e.Key()))
		return nil
	})

	return ks
}

// ---- generic front end

type bwrapOf struct {
	h     *fh
	inner *cache.ShardedMapOf[Tok]
}

func (b *bwrapOf) Read(ctx context.Context, key []byte) (Tok, error) {
	if b.h.quiet {
		return b.inner.Read(ctx, key)
	}

	b.h.nread++

	if err := b.h.fault("read"); err != nil {
		b.h.ev(FEv{Kind: "fault", Key: b.h.keyIndex(key), Err: err, Name: "read"})
		return Tok{}, err
	}

	v, err := b.inner.Read(ctx, key)
	b.h.ev(FEv{Kind: "read", Key: b.h.keyIndex(key), Err: err, Tok: v, Nil: v == Tok{}, Ctx: ctxObs{Skip: cache.SkipRead(ctx)}})

	return v, err
}

func (b *bwrapOf) Write(ctx context.Context, key []byte, v Tok) error {
	if b.h.quiet {
		return b.inner.Write(ctx, key, v)
	}

	b.h.nwrite++

	if err := b.h.fault("write"); err != nil {
		b.h.ev(FEv{Kind: "fault", Key: b.h.keyIndex(key), Err: err, Name: "write", TTL: cache.TTL(ctx), Tok: v})
		return err
	}

	b.h.ev(FEv{Kind: "write", Key: b.h.keyIndex(key), TTL: cache.TTL(ctx), Tok: v, Nil: v == Tok{}, Name: string(key)})

	if b.h.capKey0 && b.h.keyIndex(key) == 0 {
		_ = cache.WithTTL(ctx, time.Second, true)
	}

	return b.inner.Write(ctx, key, v)
}

type frontFO struct {
	f     *cache.FailoverOf[Tok]
	inner *cache.ShardedMapOf[Tok]
}

func (f *frontFO) Get(ctx context.Context, key []byte, b func(context.Context) (Tok, error)) (Tok, bool, string, error) {
	v, err := f.f.Get(ctx, key, func(ctx context.Context) (Tok, error) {
		t, err := b(ctx)
		if t == nilTok {
			t = Tok{}
		}

		return t, err
	})

	return v, v == Tok{}, "", err
}

func (f *frontFO) KeyLocks() int { return f.f.VerifKeyLocks() }

func (f *frontFO) WalkFail() {
	_, _ = f.inner.Walk(func(e cache.EntryOf[Tok]) error { return errWalkStop })
}

func (f *frontFO) ErrorsCleanup() {
	if f.f.Errors != nil {
		f.f.Errors.VerifCleanup()
	}
}

func (f *frontFO) ExpireAll() { f.inner.ExpireAll(context.Background()) }

func (f *frontFO) SeedFailure(ctx context.Context, key []byte, err error) {
	if f.f.Errors != nil {
		_ = f.f.Errors.Write(ctx, key, err)
	}
}

func (f *frontFO) FailurePeek(key []byte) (error, bool) {
	if f.f.Errors == nil {
		return nil, false
	}

	v, err := f.f.Errors.Read(context.Background(), key)
	if err != nil {
		return nil, false
	}

	return v, true
}

func (f *frontFO) Preload(ctx context.Context, key []byte, v Tok) { _ = f.inner.Write(ctx, key, v) }
func (f *frontFO) PreloadNil(ctx context.Context, key []byte)     { _ = f.inner.Write(ctx, key, Tok{}) }

func (f *frontFO) Peek(key []byte) (Tok, bool, time.Time, bool) {
	var (
		res   Tok
		at    time.Time
		found bool
	)

	_, _ = f.inner.Walk(func(e cache.EntryOf[Tok]) error {
		if string(e.Key()) == string(key) {
			found = true
			at = e.ExpireAt()
			res = e.Value()
		}

		return nil
	})

	return res, res == Tok{}, at, found
}

func (f *frontFO) WalkKeys() []string {
	var ks []string

	_, _ = f.inner.Walk(func(e cache.EntryOf[Tok]) error {
		ks = append(ks, string(e.Key()))
		return nil
	})

	return ks
}

// ---- generic API over an interface{} backend

type frontFA struct {
	f     *cache.FailoverOf[any]
	inner cache.ReadWriter
}

func (f *frontFA) Get(ctx context.Context, key []byte, b func(context.Context) (Tok, error)) (Tok, bool, string, error) {
	v, err := f.f.Get(ctx, key, func(ctx context.Context) (any, error) {
		t, err := b(ctx)
		if err != nil {
			return nil, err
		}

		if t == nilTok {
			return nil, nil
		}

		return t, nil
	})

	if v == nil {
		return Tok{}, true, "", err
	}

	t, ok := v.(Tok)
	if !ok {
		return Tok{}, false, fmt.Sprintf("value of unexpected type %T: %v", v, v), err
	}

	return t, false, "", err
}

func (f *frontFA) KeyLocks() int { return f.f.VerifKeyLocks() }

func (f *frontFA) WalkFail() { (&frontF{inner: f.inner}).WalkFail() }

func (f *frontFA) ErrorsCleanup() {
	if f.f.Errors != nil {
		f.f.Errors.VerifCleanup()
	}
}

func (f *frontFA) ExpireAll() {
	f.inner.(interface{ ExpireAll(context.Context) }).ExpireAll(context.Background())
}

func (f *frontFA) SeedFailure(ctx context.Context, key []byte, err error) {
	if f.f.Errors != nil {
		_ = f.f.Errors.Write(ctx, key, err)
	}
}

func (f *frontFA) FailurePeek(key []byte) (error, bool) {
	if f.f.Errors == nil {
		return nil, false
	}

	v, err := f.f.Errors.Read(context.Background(), key)
	if err != nil {
		return nil, false
	}

	return v, true
}

func (f *frontFA) Preload(ctx context.Context, key []byte, v Tok) { _ = f.inner.Write(ctx, key, v) }
func (f *frontFA) PreloadNil(ctx context.Context, key []byte)     { _ = f.inner.Write(ctx, key, nil) }

func (f *frontFA) Peek(key []byte) (Tok, bool, time.Time, bool) {
	return (&frontF{inner: f.inner}).Peek(key)
}

func (f *frontFA) WalkKeys() []string { return (&frontF{inner: f.inner}).WalkKeys() }

// ---- scenario construction

const (
	backendTTL = 5 * time.Minute
	maxStale   = time.Minute
	updateTTL  = time.Minute
	failedTTL  = 20 * time.Second
)

func newFH(cfg FCfg) *fh {
	vclock.Reset()

	h := &fh{cfg: cfg, stats: map[string]float64{}}
	h.ref = &fhRef{h: h}
	nkeys := len(cfg.Init)

	for i := 0; i < nkeys; i++ {
		h.names = append(h.names, keyNames[i])
		h.keys = append(h.keys, []byte(keyNames[i]))
	}

	for _, t := range cfg.Tags {
		if t == "longkeys" {
			// keys of 100 bytes that share their first 70
			for i := 0; i < nkeys; i++ {
				h.names[i] = strings.Repeat("long-key-", 10)[:70] + "/" + keyNames[i] + strings.Repeat("#", 16)
				h.keys[i] = []byte(h.names[i])
			}
		}
	}

	if cfg.Collide {
		ck := collidingKeys([]byte("collision-base-0123456789abcdef-collision-base-0123456789abcdef!")[:64], nkeys)
		for i := 0; i < nkeys; i++ {
			h.keys[i] = ck[i]
			h.names[i] = string(ck[i])
		}
	}

	upd := time.Duration(0)
	if cfg.UpdSec != 0 {
		upd = time.Duration(cfg.UpdSec) * time.Second
	}

	bcfg := cache.Config{Name: "c", TimeToLive: backendTTL, ExpirationJitter: -1}
	if cfg.BUnl {
		bcfg.TimeToLive = cache.UnlimitedTTL
	}

	var (
		st cache.StatsTracker
		lg cache.Logger
	)

	if cfg.ObsMut {
		st = fstats{h.ref}
	}

	for _, t := range cfg.Tags {
		if t == "stats" {
			st = fstats{h.ref}
		}

		if t == "log" {
			lg = flogger{h.ref}
		}

		if t == "slow" {
			h.slowBuild = true
		}

		if t == "walkfail" {
			h.walkFail = true
		}

		if t == "nested" || t == "nested-derive" {
			h.nested = true
			h.nestedDerive = t == "nested-derive"
		}

		if t == "nilpre" {
			h.nilPre = true
		}

		if t == "capkey0" {
			h.capKey0 = true
		}
	}

	bcfg.Stats = st
	bcfg.Logger = lg

	ms := time.Duration(0)
	if cfg.MS {
		ms = maxStale
	}

	ft := time.Duration(0)
	if cfg.FTNeg {
		ft = -1
	} else if cfg.FTSec != 0 {
		ft = time.Duration(cfg.FTSec) * time.Second
	}

	if cfg.Rand != 0 {
		vclock.SetRand(cfg.Rand - 1)
	}

	vsched.Construct(func() { h.construct(cfg, bcfg, st, lg, ms, ft, upd) })

	// Preload entry states relative to a common advance of 10 minutes.
	bg := context.Background()

	for i := 0; i < nkeys; i++ {
		pre := Tok{K: h.names[i], O: "pre"}

		load := func(ctx context.Context) {
			if h.nilPre {
				h.front.PreloadNil(ctx, h.keys[i])
			} else {
				h.front.Preload(ctx, h.keys[i], pre)
			}
		}

		switch cfg.Init[i] {
		case 'F':
			load(cache.WithTTL(bg, time.Hour, false))
		case 'S':
			load(cache.WithTTL(bg, 10*time.Minute-10*time.Second, false))
		case 'T':
			load(cache.WithTTL(bg, 5*time.Minute, false))
		}
	}

	vclock.Advance(10 * time.Minute)

	for i := 0; i < nkeys && i < len(cfg.FailC); i++ {
		if cfg.FailC[i] == '1' {
			h.front.SeedFailure(bg, h.keys[i], &TokErr{K: h.names[i], N: -1})
		}
	}

	for _, t := range cfg.Tags {
		if t == "failexpired" {
			// the cached failures above are left in the failure cache as expired entries
			d := 25 * time.Second
			if ft > 0 {
				d = ft + 5*time.Second
			}

			vclock.Advance(d)
		}
	}

	if h.walkFail {
		h.front.WalkFail()
	}

	return h
}

// construct creates the front-end and its backend (goroutines started here are daemons).
func (h *fh) construct(cfg FCfg, bcfg cache.Config, st cache.StatsTracker, lg cache.Logger, ms, ft, upd time.Duration) {
	for _, t := range cfg.Tags {
		if t == "sidewrite" {
			h.sideSM = cache.NewShardedMap(cache.Config{Name: "side", ExpirationJitter: -1}.Use)
			h.sideOF = cache.NewShardedMapOf[int](cache.Config{Name: "sideOf", ExpirationJitter: -1}.Use)
		}
	}

	switch cfg.Front {
	case 3, 4:
		var inner cache.ReadWriter

		if cfg.Front == 3 {
			inner = cache.NewShardedMap(bcfg.Use)
		} else {
			inner = cache.NewSyncMap(bcfg.Use)
		}

		f := cache.NewFailoverOf[any](cache.FailoverConfigOf[any]{
			Name: "c", Backend: &bwrap{h: h, inner: inner}, SyncUpdate: cfg.SU, SyncRead: cfg.SR, FailHard: cfg.FH,
			MaxStaleness: ms, FailedUpdateTTL: ft, UpdateTTL: upd, Stats: st, Logger: lg, ObserveMutability: cfg.ObsMut,
			BackendConfig: cache.Config{CountSoftLimit: uint64(cfg.BCount)},
		}.Use)
		h.front = &frontFA{f: f, inner: inner}
	case 0, 1, 5:
		var inner cache.ReadWriter

		switch cfg.Front {
		case 0:
			inner = cache.NewShardedMap(bcfg.Use)
		case 1:
			inner = cache.NewSyncMap(bcfg.Use)
		default:
			inner = cache.NewShardedMapOf[any](bcfg.Use)
		}

		f := cache.NewFailover(cache.FailoverConfig{
			Name: "c", Backend: &bwrap{h: h, inner: inner}, SyncUpdate: cfg.SU, SyncRead: cfg.SR, FailHard: cfg.FH,
			MaxStaleness: ms, FailedUpdateTTL: ft, UpdateTTL: upd, Stats: st, Logger: lg, ObserveMutability: cfg.ObsMut,
			BackendConfig: cache.Config{CountSoftLimit: uint64(cfg.BCount)},
		}.Use)
		h.front = &frontF{f: f, inner: inner}
	case 2:
		inner := cache.NewShardedMapOf[Tok](bcfg.Use)
		f := cache.NewFailoverOf[Tok](cache.FailoverConfigOf[Tok]{
			Name: "c", Backend: &bwrapOf{h: h, inner: inner}, SyncUpdate: cfg.SU, SyncRead: cfg.SR, FailHard: cfg.FH,
			MaxStaleness: ms, FailedUpdateTTL: ft, UpdateTTL: upd, Stats: st, Logger: lg, ObserveMutability: cfg.ObsMut,
			BackendConfig: cache.Config{CountSoftLimit: uint64(cfg.BCount)},
		}.Use)
		h.front = &frontFO{f: f, inner: inner}
	}

}

func (h *fh) builder(k int) func(ctx context.Context) (Tok, error) {
	return func(ctx context.Context) (Tok, error) {
		n := h.nbuild[k]
		h.nbuild[k]++
		h.inflight[k]++

		if h.inflight[k] > 1 {
			h.viol = append(h.viol, fmt.Sprintf("overlap: %d builds in flight for key %s", h.inflight[k], h.names[k]))
		}

		dl, hasDL := ctx.Deadline()
		_ = dl
		obs := ctxObs{Err: ctx.Err(), DoneNil: ctx.Done() == nil, Deadline: hasDL, Planted: ctx.Value(plantedKey{}), TTL: cache.TTL(ctx), Skip: cache.SkipRead(ctx)}
		h.ev(FEv{Kind: "build-start", Key: k, N: n, Ctx: obs})

		if h.ttlChain {
			// nested scopes: every call works on the context the previous one returned
			cur := ctx
			for _, c := range h.ttlCalls {
				cur = cache.WithTTL(cur, c.TTL, c.Upd)
			}
		} else {
			for _, c := range h.ttlCalls {
				_ = cache.WithTTL(ctx, c.TTL, c.Upd)
			}
		}

		// A composite value: the builder of the first key needs the second key and asks the same front-end for it,
		// with the context it was handed.
		// The builder keeps parts of what it computes in caches of its own, written with the context it was handed and
		// with keys it composes in a scratch buffer.
		if h.sideSM != nil {
			buf := append(make([]byte, 0, 64), "part-of-"...)
			buf = append(buf, h.names[k]...)
			_ = h.sideSM.Write(ctx, buf, n)
			_ = h.sideOF.Write(ctx, buf, n)

			for i := range buf {
				buf[i] = 0xEE
			}
		}

		if h.nested && k == 0 && len(h.keys) > 1 {
			nctx := ctx

			if h.nestedDerive {
				// ... under a deadline of its own, released when the nested call has returned
				var cancel context.CancelFunc

				nctx, cancel = context.WithTimeout(ctx, time.Hour)
				defer cancel()
			}

			_, _, _, _ = h.front.Get(nctx, h.keys[1], h.builder(1))
		}

		// A slow data source: the build takes longer than UpdateTTL (and than the failure window).
		if h.slowBuild {
			vclock.Advance(updateTTL + time.Second)
		}

		// The caller gives up (its context is cancelled) while the build it has caused is running.
		if c, ok := ctx.Value(cancelDurKey{}).(context.CancelFunc); ok {
			c()
			h.ev(FEv{Kind: "cancel", Key: k, Name: "during build"})
		}

		// The build is in flight: let every other thread run here.
		h.point(0xb0 + uint32(k))

		h.inflight[k]--

		out := byte('o')
		if len(h.cfg.Script) > 0 {
			i := n
			if i >= len(h.cfg.Script) {
				i = len(h.cfg.Script) - 1
			}

			out = h.cfg.Script[i]
		}

		// 'p': the builder panics (only where the panic reaches a caller that recovers it: a build on the caller's own
		// goroutine sees the caller's cancellable context, a background build sees a detached one and just fails)
		if out == 'p' && ctx.Done() != nil {
			h.ev(FEv{Kind: "build-end", Key: k, N: n, Err: errBuilderPanic, Nil: true, Ctx: ctxObs{Err: ctx.Err()}})
			panic(builderPanic{})
		}

		// 'x': the builder fails with an error that itself looks like an "expired item" error and carries a value - as
		// happens when a builder hands through the error of a second-level cache it consulted. It is a build failure
		// like any other; the value it carries belongs to something else.
		if out == 'x' {
			te := &TokErr{K: h.names[k], N: n}
			h.ev(FEv{Kind: "build-end", Key: k, N: n, Err: te, Nil: true, Ctx: ctxObs{Err: ctx.Err()}})

			foreign := Tok{K: "second-level-cache-key", O: "x", N: n}
			if h.cfg.Front == 2 {
				return Tok{}, expiredLikeErrOf{TokErr: te, v: foreign}
			}

			return Tok{}, expiredLikeErr{TokErr: te, v: foreign}
		}

		// 'c': the builder fails with a timeout of its own (an error that matches context.DeadlineExceeded although every
		// caller's context is alive): a failure like any other
		if out == 'c' {
			te := &TokErr{K: h.names[k], N: n}
			h.ev(FEv{Kind: "build-end", Key: k, N: n, Err: te, Nil: true, Ctx: ctxObs{Err: ctx.Err()}})

			return Tok{}, timeoutTokErr{te}
		}

		// 'n': the build succeeds and its result is nil
		if out == 'n' {
			h.ev(FEv{Kind: "build-end", Key: k, N: n, Nil: true, Ctx: ctxObs{Err: ctx.Err()}})

			return nilTok, nil
		}

		if out == 'f' || out == 'p' {
			err := &TokErr{K: h.names[k], N: n}
			h.ev(FEv{Kind: "build-end", Key: k, N: n, Err: err, Nil: true, Ctx: ctxObs{Err: ctx.Err()}})

			return Tok{}, err
		}

		t := Tok{K: h.names[k], O: "b", N: n}
		if out == 's' {
			t = Tok{K: h.names[k], O: "pre"} // the rebuilt value equals the cached one
		}

		h.ev(FEv{Kind: "build-end", Key: k, N: n, Tok: t, Ctx: ctxObs{Err: ctx.Err()}})

		return t, nil
	}
}

// expiredLikeErr / expiredLikeErrOf: builder errors that satisfy cache.ErrWithExpiredItem / ErrWithExpiredItemOf[Tok].
type expiredLikeErr struct {
	*TokErr
	v Tok
}

func (e expiredLikeErr) Unwrap() error        { return e.TokErr }
func (e expiredLikeErr) Value() interface{}   { return e.v }
func (e expiredLikeErr) ExpiredAt() time.Time { return vclock.Epoch }

type expiredLikeErrOf struct {
	*TokErr
	v Tok
}

func (e expiredLikeErrOf) Unwrap() error        { return e.TokErr }
func (e expiredLikeErrOf) Value() Tok           { return e.v }
func (e expiredLikeErrOf) ExpiredAt() time.Time { return vclock.Epoch }

var (
	_ cache.ErrWithExpiredItem        = expiredLikeErr{}
	_ cache.ErrWithExpiredItemOf[Tok] = expiredLikeErrOf{}
)

// timeoutTokErr is a builder error that matches context.DeadlineExceeded (the builder's own timeout).
type timeoutTokErr struct{ *TokErr }

func (e timeoutTokErr) Unwrap() error        { return e.TokErr }
func (e timeoutTokErr) Is(target error) bool { return target == context.DeadlineExceeded }

type cancelDurKey struct{}

// nilTok is what a builder scripted with 'n' returns: the front-end hands a nil value (the zero value for a typed
// front-end) to the library - a successful build whose result is "nothing there" (negative caching).
var nilTok = Tok{K: "<nil>", O: "nil"}

// builderPanic is what a builder scripted with 'p' panics with; the calling harness thread recovers it.
type builderPanic struct{}

var errBuilderPanic = errors.New("builder panicked")

// runGet performs one Get of a harness thread and the caller behaviour after it.
func (h *fh) runGet(op GOp, buf []byte) {
	ctx := context.WithValue(context.Background(), plantedKey{}, "planted")

	var cancel context.CancelFunc
	if op.Cancel || strings.Contains(h.cfg.Script, "p") {
		ctx, cancel = context.WithCancel(ctx)
	}

	if op.CDur {
		var c context.CancelFunc

		ctx, c = context.WithCancel(ctx)
		ctx = context.WithValue(ctx, cancelDurKey{}, c)
	}

	if op.TTL != 0 || op.TTL0 {
		ctx = cache.WithTTL(ctx, time.Duration(op.TTL)*time.Second, false)
	}

	if op.CBef {
		var c context.CancelFunc
		ctx, c = context.WithCancel(ctx)
		c()
	}

	if op.DL {
		var c context.CancelFunc
		ctx, c = context.WithDeadline(ctx, time.Now().Add(24*time.Hour)) // real clock: package context knows no other
		defer c()
	}

	if op.Skip {
		ctx = cache.WithSkipRead(ctx)
	}

	key := buf
	if key == nil {
		key = append([]byte(nil), h.keys[op.Key]...)
	} else {
		copy(key, h.keys[op.Key])
	}

	h.ev(FEv{Kind: "get-start", Key: op.Key})

	var (
		t       Tok
		isNil   bool
		weird   string
		err     error
		paniced bool
	)

	func() {
		defer func() {
			if r := recover(); r != nil {
				if _, ok := r.(builderPanic); !ok {
					panic(r)
				}

				paniced = true
			}
		}()

		t, isNil, weird, err = h.front.Get(ctx, key, h.builder(op.Key))
	}()

	if paniced {
		t, isNil, weird, err = Tok{}, true, "", errBuilderPanic
	}

	if weird != "" {
		h.viol = append(h.viol, "fabricated: "+weird)
	}

	endName := ""
	if op.Skip {
		endName = "skip"
	}

	h.ev(FEv{Kind: "get-end", Key: op.Key, Tok: t, Nil: isNil, Err: err, TTL: cache.TTL(ctx), Name: endName})
	h.ctxs = append(h.ctxs, ctx)

	if op.Mut {
		vsched.Yield()
		copy(key, mutatedKey)
		h.ev(FEv{Kind: "mutate", Key: op.Key})
	}

	if op.Cancel {
		vsched.Yield()
		cancel()
		h.ev(FEv{Kind: "cancel", Key: op.Key})
	}
}

// body runs the scenario's threads to quiescence (thread 0 of the execution).
func (h *fh) body() {
	for _, ops := range h.cfg.Threads {
		ops := ops
		vsched.SpawnThread("getter", func() {
			var buf []byte

			for _, op := range ops {
				if op.Reuse {
					if buf == nil {
						buf = make([]byte, len(h.keys[0])) // all keys of a scenario have the same length
					}

					h.runGet(op, buf)
				} else {
					h.runGet(op, nil)
				}
			}
		})
	}

	vsched.Join()
}

func (h *fh) formatLog() string {
	var sb strings.Builder
	for _, e := range h.log {
		sb.WriteString("  " + e.String() + "\n")
	}

	return sb.String()
}

// outcomeKey summarises what the Gets of an execution returned (for the distinct-outcome count).
func (h *fh) outcomeKey() string {
	var parts []string

	for _, e := range h.log {
		if e.Kind == "get-end" {
			s := fmt.Sprintf("t%d:", e.Tid)
			if e.Err != nil {
				s += "E(" + e.Err.Error() + ")"
			} else if e.Nil {
				s += "nil"
			} else {
				s += e.Tok.String()
			}

			parts = append(parts, s)
		}
	}

	nb := 0
	for _, n := range h.nbuild {
		nb += n
	}

	return strings.Join(parts, " ") + fmt.Sprintf(" builds=%d", nb)
}

func isTokErr(err error, key string) bool {
	var te *TokErr
	return errors.As(err, &te) && te.K == key
}

func isFault(err error) bool {
	var fe *FaultErr
	return errors.As(err, &fe)
}

// setupHook, when set, runs right after a scenario instance has been constructed (C18 baseline).
var setupHook func(h *fh)

// exploreF explores one Failover scenario with the given oracle.
func exploreF(cfg FCfg, env *Env, opt vsched.Options, post func(h *fh), check func(h *fh, r *vsched.Result) []Violation) CellResult {
	res := CellResult{Exhaustive: true, Outcomes: map[string]int{}}

	var h *fh

	body := func() {
		h = newFH(cfg)
		if setupHook != nil {
			setupHook(h)
		}

		h.body()
		h.burstEnd = len(h.log)

		if post != nil {
			post(h)
		}
	}

	report := func(r *vsched.Result) []Violation {
		var vs []Violation

		if r.Deadlock {
			vs = append(vs, Violation{Signature: "deadlock", Detail: "no runnable thread while some are blocked:\n" + strings.Join(r.Blocked, "\n")})
		}

		if r.Panic != nil {
			vs = append(vs, Violation{Signature: "panic", Detail: fmt.Sprintf("panic in t%d: %v\n%s", r.PanicTid, r.Panic, r.PanicStack)})
		}

		if !r.Fatal() && r.Panic == nil {
			vs = append(vs, check(h, r)...)
		}

		for i := range vs {
			vs[i].Choices = r.Choices()
			vs[i].Trace = h.formatLog()
		}

		return vs
	}

	if env.Replay != nil {
		r := vsched.Replay(env.Replay.Choices, body)
		res.Violations = report(r)
		res.Execs = 1

		if env.Verbose {
			fmt.Printf("scenario: %s\nevents:\n%s\nschedule:\n%s", cfg.ID(), h.formatLog(), vsched.FormatTrace(r))
		}

		return res
	}

	opt.Deadline = env.Deadline
	seenSig := map[string]bool{}

	st := vsched.Explore(opt, body, func(r *vsched.Result) bool {
		defer func() { h.ref.h = nil }() // break the instance -> harness cycle (see fhRef)

		if r.Horizon {
			res.Exhaustive = false
			res.CapHit = "step horizon"

			return true
		}

		vs := report(r)
		for _, v := range vs {
			if !seenSig[v.Signature] {
				seenSig[v.Signature] = true

				// Before a failure is believed the recorded schedule is replayed twice: the same schedule must
				// fail the same way every time, otherwise the harness (not the code) is at fault.
				for i := 0; i < 2; i++ {
					rr := vsched.Replay(v.Choices, body)
					same := false

					for _, v2 := range report(rr) {
						if v2.Signature == v.Signature {
							same = true
						}
					}

					if !same {
						vsched.Fatalf("NONDETERMINISM: violation %q did not reproduce when its schedule was replayed (scenario %s)", v.Signature, cfg.ID())
					}
				}

				res.Violations = append(res.Violations, v)
			}
		}

		if !r.Fatal() {
			res.Outcomes[h.outcomeKey()]++

			if res.Sample == nil {
				res.Sample = map[string]interface{}{"schedule": r.Choices(), "events": strings.Split(strings.TrimSpace(h.formatLog()), "\n")}
			}
		}

		return len(res.Violations) < 8
	})

	res.Execs = st.Execs
	res.Transitions = st.Transitions
	res.MaxDepth = st.MaxDepth
	res.States = st.HBStates

	if res.States == 0 {
		res.States = st.Transitions
	}

	if !st.Exhaustive {
		res.Exhaustive = false
		res.CapHit = st.CapHit
	}

	res.Bound = fmt.Sprintf("preemptions<=%d env<=%d hb=%v", opt.PreemptionBound, opt.EnvBound, opt.HBCache)

	return res
}
