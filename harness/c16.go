package harness

import (
	"bytes"
	"context"
	"encoding/json"
	"fmt"
	"os"
	"sort"
	"strings"
	"time"

	"github.com/bool64/cache"

	"verif/vclock"
	"verif/vsched"
)

// C16 — the public API is free of data races (DESIGN §C16).
//
// Every interleaving of the synchronisation operations of a small client program is enumerated by the
// scheduler; in each execution Go's race detector is the oracle. The scheduler's hand-offs are invisible
// to the detector (plain words touched only from //go:norace code), so the detector judges exactly the
// happens-before relation that the program's own synchronisation establishes in that interleaving.

type c16Cell struct {
	Kind     string `json:"kind"` // backend | index | failover | invalidator
	Backend  string `json:"backend,omitempty"`
	Strategy int    `json:"strategy,omitempty"`
	PerCall  bool   `json:"percall,omitempty"` // TimeToLive=UnlimitedTTL and writes carry a per-call TTL
	A        int    `json:"a"`
	B        int    `json:"b"`
	C        int    `json:"c"` // third op, -1 = none
	F        *FCfg  `json:"f,omitempty"`
}

func (c c16Cell) id() string { js, _ := json.Marshal(c); return string(js) }

var c16BackendOps = []string{"Read", "Write", "Delete", "ExpireAll", "DeleteAll", "Len", "Walk", "Dump", "Restore", "Cleanup", "Evict", "AddLabels", "InvalidateByLabels"}

var c16IndexOps = []string{"AddCache(new)", "AddLabels(new name)", "AddLabels(existing)", "InvalidateByLabels"}

func c16Cells(tier string) []Cell {
	var cells []Cell

	for _, b := range backendKinds {
		for s := 0; s < 3; s++ {
			for a := range c16BackendOps {
				for bb := a; bb < len(c16BackendOps); bb++ {
					cells = append(cells, Cell{ID: c16Cell{Kind: "backend", Backend: b, Strategy: s, A: a, B: bb, C: -1}.id()})

					if s == 0 {
						cells = append(cells, Cell{ID: c16Cell{Kind: "backend", Backend: b, Strategy: s, PerCall: true, A: a, B: bb, C: -1}.id()})
					}
				}
			}

			if tier == "thorough" {
				// triples of the operations that touch entries in place
				tri := []int{0, 1, 3, 6, 7, 10}
				for i, a := range tri {
					for j := i; j < len(tri); j++ {
						for k := j; k < len(tri); k++ {
							cells = append(cells, Cell{ID: c16Cell{Kind: "backend", Backend: b, Strategy: s, A: a, B: tri[j], C: tri[k]}.id()})
						}
					}
				}
			}
		}
	}

	for a := range c16IndexOps {
		for b := a; b < len(c16IndexOps); b++ {
			cells = append(cells, Cell{ID: c16Cell{Kind: "index", A: a, B: b, C: -1}.id()})
		}
	}

	for front := 0; front < 3; front++ {
		for _, init := range []string{"A", "S", "T", "F"} {
			for _, sc := range []string{"o", "f"} {
				for _, su := range []bool{false, true} {
					for _, sr := range []bool{false, true} {
						f := FCfg{Front: front, SU: su, SR: sr, MS: true, Init: init, FailC: "0", Script: sc, Threads: [][]GOp{{{Key: 0}}, {{Key: 0}}}}
						cells = append(cells, Cell{ID: c16Cell{Kind: "failover", F: &f, C: -1}.id()})
					}
				}
			}
		}
	}

	cells = append(cells, Cell{ID: c16Cell{Kind: "invalidator", C: -1}.id()})

	// The index pairs once more with a deleter that fails (a remote second-level cache that is down): InvalidateByLabels
	// then takes its put-back path (PerCall marks the variant)
	for a := range c16IndexOps {
		for b := a; b < len(c16IndexOps); b++ {
			cells = append(cells, Cell{ID: c16Cell{Kind: "index", A: a, B: b, C: -1, PerCall: true}.id()})
		}
	}

	// Two Gets on two keys under ONE caller context that carries a TTL (a request-scoped context handed to several
	// lookups): the TTL cell behind it is shared, the library may read it but must not write to it on its own.
	for front := 0; front < 3; front++ {
		for _, init := range []string{"SS", "SA", "TT"} {
			for _, su := range []bool{false, true} {
				f := FCfg{Front: front, SU: su, MS: true, Init: init, FailC: "00", Script: "o", Threads: [][]GOp{{{Key: 0}}, {{Key: 1}}}, Tags: []string{"sharedctx"}}
				cells = append(cells, Cell{ID: c16Cell{Kind: "failover", F: &f, C: -1}.id()})
			}
		}
	}

	// Two Gets on two keys, each under its OWN context that asks for the default TTL explicitly
	// (WithTTL(ctx, DefaultTTL, false)); the builders communicate a TTL the documented way (WithTTL(ctx, 30s, true)).
	// Nothing is shared between the two callers, so nothing may race.
	for front := 0; front < 3; front++ {
		for _, init := range []string{"AA", "SS"} {
			for _, su := range []bool{false, true} {
				for _, sc := range []string{"o", "f"} {
					f := FCfg{Front: front, SU: su, MS: true, Init: init, FailC: "00", Script: sc, Threads: [][]GOp{{{Key: 0}}, {{Key: 1}}}, Tags: []string{"ownzero"}}
					cells = append(cells, Cell{ID: c16Cell{Kind: "failover", F: &f, C: -1}.id()})
				}
			}
		}
	}

	return cells
}

// ---- race log

var (
	raceLogPath string
	raceLogOff  int64
)

func raceLogInit() {
	if p := os.Getenv("VERIF_RACE_LOG"); p != "" {
		raceLogPath = fmt.Sprintf("%s.%d", p, os.Getpid())
	}
}

// raceReports returns the race reports written since the last call.
func raceReports() []string {
	if raceLogPath == "" {
		return nil
	}

	f, err := os.Open(raceLogPath)
	if err != nil {
		return nil
	}
	defer f.Close()

	st, _ := f.Stat()
	if st.Size() <= raceLogOff {
		return nil
	}

	buf := make([]byte, st.Size()-raceLogOff)
	_, _ = f.ReadAt(buf, raceLogOff)
	raceLogOff = st.Size()

	var reps []string

	for _, blk := range strings.Split(string(buf), "==================") {
		if strings.Contains(blk, "DATA RACE") {
			reps = append(reps, strings.TrimSpace(blk))
		}
	}

	return reps
}

// raceSignature extracts the unordered pair of top bool64/cache frames of the two racing accesses.
func raceSignature(rep string) (string, bool) {
	var (
		section = -1
		top     = map[int]string{} // the frame performing the access
		cacheFn = map[int]string{} // first bool64/cache frame of the stack
	)

	for _, l := range strings.Split(rep, "\n") {
		t := strings.TrimSpace(l)

		switch {
		case strings.HasPrefix(t, "Write at"), strings.HasPrefix(t, "Read at"), strings.HasPrefix(t, "Previous write at"),
			strings.HasPrefix(t, "Previous read at"), strings.HasPrefix(t, "Atomic"), strings.HasPrefix(t, "Previous atomic"):
			section++
		case strings.HasPrefix(t, "Goroutine "):
			section = 99
		case section >= 0 && section < 2 && strings.HasSuffix(t, ")") && !strings.HasPrefix(t, "/"):
			fn := t
			if i := strings.LastIndex(fn, "("); i > 0 {
				fn = fn[:i]
			}

			if top[section] == "" {
				top[section] = fn
			}

			if cacheFn[section] == "" && strings.Contains(fn, "github.com/bool64/cache.") {
				cacheFn[section] = strings.TrimPrefix(fn, "github.com/bool64/cache.")
			}
		}
	}

	// Harness-only: neither stack runs through bool64/cache, or an access is performed by the scheduler, a shim or
	// the virtual clock themselves (their own bookkeeping words). An access performed by CLIENT code of the harness
	// (verif/harness: rewriting its own key buffer after a call returned, reading the key bytes a Walk callback was
	// handed) counts when the other side runs through bool64/cache: the library then shares caller-owned memory.
	infra := func(fn string) bool {
		return strings.HasPrefix(fn, "verif/vsched") || strings.HasPrefix(fn, "verif/shim") || strings.HasPrefix(fn, "verif/vclock")
	}

	if infra(top[0]) || infra(top[1]) || (cacheFn[0] == "" && cacheFn[1] == "") {
		return "harness-only " + top[0] + " <-> " + top[1], false
	}

	var tops []string

	for s := 0; s < 2; s++ {
		if cacheFn[s] != "" {
			tops = append(tops, cacheFn[s])
		} else {
			tops = append(tops, "caller code (owns the memory)")
		}
	}

	sort.Strings(tops)

	// normalise generic instantiations
	for i, t := range tops {
		if a := strings.Index(t, "["); a > 0 {
			if b := strings.Index(t[a:], "]"); b > 0 {
				tops[i] = t[:a] + "<V>" + t[a+b+1:]
			}
		}
	}

	return strings.Join(tops, " <-> "), true
}

// ---- programs

func c16BackendBody(cc c16Cell) func() {
	return func() {
		vclock.Reset()
		vclock.AutoTick = true

		cfg := cache.Config{Name: "c16", ExpirationJitter: -1, TimeToLive: 5 * time.Minute, EvictionStrategy: cache.EvictionStrategy(cc.Strategy)}
		wctx := context.Background()

		if cc.PerCall {
			cfg.TimeToLive = cache.UnlimitedTTL
			wctx = cache.WithTTL(wctx, time.Hour, false)
		}

		b := newBackend(cc.Backend, cfg)
		evictCfg := cfg
		evictCfg.EvictionNeeded = func() bool { return true }
		evictCfg.EvictFraction = 0.5

		needEvict := cc.A == 10 || cc.B == 10 || cc.C == 10
		if needEvict {
			b = newBackend(cc.Backend, evictCfg)
		}

		keys := sameShardKeys()
		ctx := context.Background()

		_ = b.Write(ctx, keys[0], 1)

		if !cc.PerCall {
			// (with PerCall the first explicit TTL must come from the racing operations themselves)
			_ = b.Write(cache.WithTTL(ctx, -48*time.Hour, false), keys[1], 2)
		}

		_ = b.Write(ctx, keys[2], 3)
		b.Index().AddInvalidationLabels(keys[1], "L")
		b.Index().AddInvalidationLabels(keys[0], "L")

		var dump bytes.Buffer

		src := newBackend(cc.Backend, cfg)
		_ = src.Write(ctx, keys[0], 7)
		_ = src.Write(ctx, []byte("other"), 8)
		_, _ = src.Dump(&dump)
		dumpBytes := dump.Bytes()

		op := func(o int) func() {
			return func() {
				switch o {
				case 0:
					kb := append([]byte(nil), keys[0]...)
					_, _ = b.Read(ctx, kb)
					kb[0] ^= 0xff // the key buffer is the caller's: it is rewritten once the call has returned
				case 1:
					kb := append([]byte(nil), keys[0]...)
					_ = b.Write(wctx, kb, 9)
					kb[0] ^= 0xff
				case 2:
					kb := append([]byte(nil), keys[0]...)
					_ = b.Delete(ctx, kb)
					kb[0] ^= 0xff
				case 3:
					b.ExpireAll(ctx)
				case 4:
					b.DeleteAll(ctx)
				case 5:
					_ = b.Len()
				case 6:
					n := 0
					_, _ = b.Walk(func(k []byte, v interface{}, at time.Time) error {
						n += len(k) + int(at.UnixNano()&1)
						_ = v

						for _, c := range k {
							n += int(c) // the key bytes are read, not only the slice header
						}

						return nil
					})
				case 7:
					var w bytes.Buffer
					_, _ = b.Dump(&w)
				case 8:
					_, _ = b.Restore(bytes.NewReader(dumpBytes))
				case 9, 10:
					b.Cleanup()
				case 11:
					kb := append([]byte(nil), keys[0]...)
					b.Index().AddInvalidationLabels(kb, "L")
					kb[0] ^= 0xff
				case 12:
					_, _ = b.Index().InvalidateByLabels(ctx, "L")
				}
			}
		}

		vsched.SpawnThread(c16BackendOps[cc.A], op(cc.A))
		vsched.SpawnThread(c16BackendOps[cc.B], op(cc.B))

		if cc.C >= 0 {
			vsched.SpawnThread(c16BackendOps[cc.C], op(cc.C))
		}

		vsched.Join()
	}
}

func c16IndexBody(cc c16Cell) func() {
	return func() {
		vclock.Reset()

		cfg := cache.Config{Name: "c16i", ExpirationJitter: -1}
		c1, c2 := newBackend("ShardedMap", cfg), newBackend("SyncMap", cfg)
		ctx := context.Background()
		idx := cache.NewInvalidationIndex()

		if cc.PerCall {
			idx.AddCache("one", deleterFn(func(ctx context.Context, key []byte) error { return errInjected }))
			idx.AddLabels("one", []byte("k3"), "L")
		} else {
			idx.AddCache("one", deleterOf(c1))
		}

		idx.AddLabels("one", []byte("k1"), "L")
		_ = c1.Write(ctx, []byte("k1"), 1)
		_ = c2.Write(ctx, []byte("k2"), 2)

		op := func(o int) func() {
			return func() {
				switch o {
				case 0:
					idx.AddCache("two", deleterOf(c2))
				case 1:
					idx.AddLabels("two", []byte("k2"), "L")
				case 2:
					idx.AddLabels("one", []byte("k1"), "L", "M")
				case 3:
					_, _ = idx.InvalidateByLabels(ctx, "L")
				}
			}
		}

		vsched.SpawnThread(c16IndexOps[cc.A], op(cc.A))
		vsched.SpawnThread(c16IndexOps[cc.B], op(cc.B))
		vsched.Join()
	}
}

func c16InvalidatorBody() func() {
	return func() {
		vclock.Reset()

		inv := &cache.Invalidator{}
		inv.Callbacks = append(inv.Callbacks, func(ctx context.Context) {})

		for i := 0; i < 2; i++ {
			vsched.SpawnThread("Invalidate", func() { _ = inv.Invalidate(context.Background()) })
		}

		vsched.Join()
	}
}

// c16FailoverBody: two Gets on one key with builders that share nothing with the harness.
func c16FailoverBody(cfg FCfg) func() {
	return func() {
		h := newFHQuiet(cfg)
		gctx := context.Background()
		shared := len(cfg.Tags) > 0 && cfg.Tags[0] == "sharedctx"

		if shared {
			gctx = cache.WithTTL(gctx, time.Hour, false)
		}

		ownZero := len(cfg.Tags) > 0 && cfg.Tags[0] == "ownzero"

		for i := range cfg.Threads {
			k := 0
			if shared || ownZero {
				k = i
			}

			vsched.SpawnThread("Get", func() {
				key := append([]byte(nil), h.keys[k]...)
				n := 0
				gctx := gctx

				if ownZero {
					gctx = cache.WithTTL(context.Background(), cache.DefaultTTL, false)
				}

				_, _, _, _ = h.front.Get(gctx, key, func(ctx context.Context) (Tok, error) {
					n++

					if ownZero {
						_ = cache.WithTTL(ctx, 30*time.Second, true)
					}

					vsched.Yield()

					if cfg.Script == "f" {
						return Tok{}, &TokErr{K: "alpha-key-000", N: n}
					}

					return Tok{K: "alpha-key-000", O: "b", N: n}, nil
				})
			})
		}

		vsched.Join()
	}
}

func c16Run(c Cell, env *Env) CellResult {
	var cc c16Cell
	_ = json.Unmarshal([]byte(c.ID), &cc)

	raceLogInit()
	raceReports() // drop anything reported before this cell

	res := CellResult{Exhaustive: true, Outcomes: map[string]int{}}

	var (
		body func()
		name string
	)

	switch cc.Kind {
	case "backend":
		body = c16BackendBody(cc)
		name = fmt.Sprintf("%s/%s %s || %s", cc.Backend, strategyNames[cc.Strategy], c16BackendOps[cc.A], c16BackendOps[cc.B])
		if cc.PerCall {
			name += " (UnlimitedTTL, writes with per-call TTL)"
		}

		if cc.C >= 0 {
			name += " || " + c16BackendOps[cc.C]
		}
	case "index":
		body = c16IndexBody(cc)
		name = fmt.Sprintf("InvalidationIndex %s || %s", c16IndexOps[cc.A], c16IndexOps[cc.B])
	case "failover":
		body = c16FailoverBody(*cc.F)
		name = fmt.Sprintf("%s Get || Get init=%s script=%s su=%v sr=%v %v", frontNames[cc.F.Front], cc.F.Init, cc.F.Script, cc.F.SU, cc.F.SR, cc.F.Tags)
	case "invalidator":
		body = c16InvalidatorBody()
		name = "Invalidator Invalidate || Invalidate"
	}

	seen := map[string]bool{}

	handle := func(r *vsched.Result) {
		if r.Deadlock || r.Panic != nil {
			sig := "C16 fatal " + cc.Kind
			if !seen[sig] {
				seen[sig] = true
				res.Violations = append(res.Violations, Violation{Signature: sig, Choices: r.Choices(),
					Detail: fmt.Sprintf("program %s: deadlock=%v panic=%v\n%s", name, r.Deadlock, r.Panic, r.PanicStack)})
			}
		}

		for _, rep := range raceReports() {
			sig, inCache := raceSignature(rep)
			if !inCache {
				res.Outcomes["HARNESS-RACE "+sig]++
				continue
			}

			sig = "C16 race " + sig
			if !seen[sig] {
				seen[sig] = true
				res.Violations = append(res.Violations, Violation{Signature: sig, Choices: r.Choices(),
					Detail: fmt.Sprintf("program: %s\n%s", name, rep)})
			}
		}
	}

	if env.Replay != nil {
		r := vsched.Replay(env.Replay.Choices, body)
		handle(r)

		fmt.Printf("program: %s\n%s", name, vsched.FormatTrace(r))

		return res
	}

	opt := vsched.Options{PreemptionBound: 2, EnvBound: 0, HBCache: true, Deadline: env.Deadline}
	if env.Thorough() {
		opt = vsched.Options{PreemptionBound: -1, EnvBound: 0, HBCache: true, MaxExecs: 200000, Deadline: env.Deadline}
	}

	st := vsched.Explore(opt, body, func(r *vsched.Result) bool {
		handle(r)

		if res.Sample == nil {
			res.Sample = map[string]interface{}{"program": name, "schedule": r.Choices()}
		}

		return true
	})

	res.Outcomes[fmt.Sprintf("%s races=%d", cc.Kind, len(res.Violations))]++
	res.Execs, res.Transitions, res.States, res.MaxDepth = st.Execs, st.Transitions, st.HBStates, st.MaxDepth

	if !st.Exhaustive {
		res.Exhaustive, res.CapHit = false, st.CapHit
	}

	return res
}

// newFHQuiet builds a Failover scenario without any harness-side recording (no shared harness state
// between threads: the race detector would report it).
func newFHQuiet(cfg FCfg) *fh {
	cfg.Tags = nil
	cfg.Faults = false
	h := newFH(cfg)
	h.quiet = true

	return h
}

func init() {
	Register(&Prop{
		ID: "C16", Title: "The public API is free of data races",
		Cells: c16Cells, Run: c16Run, Race: true,
		Rule: "client programs: EVERY unordered pair (self-pairs included) of {Read, Write, Delete, ExpireAll, DeleteAll, Len, Walk (reading Key bytes/Value/ExpireAt), Dump, Restore, cleanup, cleanup+eviction, AddInvalidationLabels, InvalidateByLabels} " +
			"on a shared instance x 3 backends x 3 eviction strategies; every pair of InvalidationIndex operations, also with a failing deleter (put-back path); two Gets on one key for Failover/FailoverOf x entry state x builder outcome x SyncUpdate x SyncRead incl. the background build; two Gets on two keys under one shared TTL-carrying caller context, and each under its own explicit-default-TTL context with builders that communicate a TTL; Invalidate || Invalidate; " +
			"thorough adds all triples of the operations that touch entries in place. For each program ALL interleavings of its synchronisation operations within the bound are executed in a -race build whose scheduler hand-offs are invisible to the detector; " +
			"the race detector is the per-execution oracle; a violation's signature is the unordered pair of top bool64/cache frames of the two accesses",
		Assumptions: []string{
			"the detector judges the Go memory model's happens-before relation; larger client programs than pairs/triples are not explored",
			"abstraction: 4 instead of 128 shards in the instrumented build (vinst -const shards=4)",
			"package-level GobRegister is not an instance named in the statement and is excluded",
			"single-key operations pass a key buffer of their own and rewrite it after the call returned (a kept reference shows up as a race with Walk/Dump/eviction)",
			"races whose two stacks contain no bool64/cache frame are harness-internal and are reported as harness problems, never as violations",
		},
	})
}
