package harness

import (
	"fmt"

	"verif/vsched"
)

// C02 — Failover results always have provenance (DESIGN §C02).

// provenance checks every Get result of an execution.
func provenance(h *fh, prop string) []Violation {
	var vs []Violation

	front := frontNames[h.cfg.Front]

	for _, e := range h.log {
		if e.Kind != "get-end" {
			continue
		}

		key := h.names[e.Key]

		if e.Err != nil {
			if isFault(e.Err) {
				continue
			}

			if isTokErr(e.Err, key) {
				// must have been produced by a builder invocation for this key that already ended (or be the seeded failure)
				ok := false

				for _, b := range h.log {
					if b.Seq > e.Seq {
						break
					}

					if b.Kind == "build-end" && b.Key == e.Key && b.Err != nil && b.Err.Error() == unwrapTok(e.Err).Error() {
						ok = true
					}
				}

				if te := unwrapTok(e.Err); te != nil && te.N == -1 && e.Key < len(h.cfg.FailC) && h.cfg.FailC[e.Key] == '1' {
					ok = true
				}

				if !ok {
					vs = append(vs, Violation{Signature: fmt.Sprintf("%s %s error-from-the-future", prop, front),
						Detail: fmt.Sprintf("Get(%s) returned %v which no finished builder invocation produced", key, e.Err)})
				}

				continue
			}

			vs = append(vs, Violation{Signature: fmt.Sprintf("%s %s foreign-error", prop, front),
				Detail: fmt.Sprintf("Get(%s) returned error %q that neither a builder for this key nor the backend produced", key, e.Err)})

			continue
		}

		if e.Nil {
			ctxt := "plain"

			for _, b := range h.log {
				if b.Seq > e.Seq {
					break
				}

				if b.Kind == "fault" && b.Key == e.Key {
					ctxt = "after-backend-" + b.Name + "-fault"
				}

				if b.Kind == "build-end" && b.Key == e.Key && b.Err != nil && ctxt == "plain" {
					ctxt = "after-build-failure"
				}
			}

			vs = append(vs, Violation{Signature: fmt.Sprintf("%s %s zero-value-nil-error %s init=%c", prop, front, ctxt, h.cfg.Init[e.Key]),
				Detail: fmt.Sprintf("Get(%s) returned a nil/zero value together with a nil error; no builder produced it", key)})

			continue
		}

		if e.Tok.K != key {
			vs = append(vs, Violation{Signature: fmt.Sprintf("%s %s value-of-other-key", prop, front),
				Detail: fmt.Sprintf("Get(%s) returned %v, a value of key %s", key, e.Tok, e.Tok.K)})

			continue
		}

		switch e.Tok.O {
		case "pre":
			if h.cfg.Init[e.Key] == 'A' {
				vs = append(vs, Violation{Signature: fmt.Sprintf("%s %s fabricated-value", prop, front),
					Detail: fmt.Sprintf("Get(%s) returned %v but nothing was preloaded for the key", key, e.Tok)})
			}
		case "b":
			ok := false

			for _, b := range h.log {
				if b.Seq > e.Seq {
					break
				}

				if b.Kind == "build-end" && b.Key == e.Key && b.Err == nil && b.Tok == e.Tok {
					ok = true
				}
			}

			if !ok {
				vs = append(vs, Violation{Signature: fmt.Sprintf("%s %s value-from-the-future", prop, front),
					Detail: fmt.Sprintf("Get(%s) returned %v before any builder invocation finished with it", key, e.Tok)})
			}
		default:
			vs = append(vs, Violation{Signature: fmt.Sprintf("%s %s fabricated-value", prop, front),
				Detail: fmt.Sprintf("Get(%s) returned %v of unknown origin", key, e.Tok)})
		}
	}

	for _, m := range h.viol {
		if len(m) > 10 && m[:10] == "fabricated" {
			vs = append(vs, Violation{Signature: fmt.Sprintf("%s %s fabricated-value", prop, front), Detail: m})
		}
	}

	return vs
}

func unwrapTok(err error) *TokErr {
	for err != nil {
		if te, ok := err.(*TokErr); ok {
			return te
		}

		u, ok := err.(interface{ Unwrap() error })
		if !ok {
			return nil
		}

		err = u.Unwrap()
	}

	return nil
}

func c02Cells(tier string) []Cell {
	var cells []Cell

	type prog struct {
		init    string
		threads [][]GOp
	}

	progs := []prog{
		{"?", [][]GOp{{{Key: 0}}, {{Key: 0}}}},
		{"?", [][]GOp{{{Key: 0, Skip: true}}, {{Key: 0}}}},
		{"?S", [][]GOp{{{Key: 0}}, {{Key: 1}}}},
	}

	if tier == "thorough" {
		progs = append(progs,
			prog{"?", [][]GOp{{{Key: 0}, {Key: 0}}, {{Key: 0, Skip: true}}, {{Key: 0}}}},
			prog{"?T", [][]GOp{{{Key: 0}, {Key: 1}}, {{Key: 1, Skip: true}, {Key: 0}}}},
		)
	}

	for front := 0; front < 3; front++ {
		for cfgBits := 0; cfgBits < 32; cfgBits++ {
			for _, init := range []string{"A", "F", "S", "T"} {
				for _, sc := range []string{"o", "f", "of", "fo"} {
					if init == "F" && sc != "o" && sc != "f" {
						continue
					}

					for pi, p := range progs {
						for _, faults := range []bool{false, true} {
							if tier == "quick" && faults && (cfgBits&0x18 != 0x08 || sc == "fo") {
								continue // quick: fault injection on the MS=1m/FT=default configurations
							}

							if tier == "quick" && pi == 2 && cfgBits&0x18 != 0x08 {
								continue
							}

							c := FCfg{
								Front: front, SU: boolBits(cfgBits, 0), SR: boolBits(cfgBits, 1), FH: boolBits(cfgBits, 2),
								MS: boolBits(cfgBits, 3), FTNeg: boolBits(cfgBits, 4),
								Init: init + p.init[1:], FailC: "00"[:len(p.init)], Script: sc, Threads: p.threads, Faults: faults,
							}
							cells = append(cells, Cell{ID: c.ID()})
						}
					}
				}
			}
		}
	}

	// One of two callers has given up before it asked (its context is already cancelled): that is its own business and
	// never becomes the result of the other one.
	for front := 0; front < 3; front++ {
		for cfgBits := 0; cfgBits < 32; cfgBits++ {
			if tier == "quick" && cfgBits&0x18 != 0x08 && cfgBits != 0 {
				continue
			}

			for _, init := range []string{"A", "S", "T"} {
				for _, sc := range []string{"o", "f"} {
					c := FCfg{
						Front: front, SU: boolBits(cfgBits, 0), SR: boolBits(cfgBits, 1), FH: boolBits(cfgBits, 2),
						MS: boolBits(cfgBits, 3), FTNeg: boolBits(cfgBits, 4),
						Init: init, FailC: "0", Script: sc, Threads: [][]GOp{{{Key: 0, CBef: true}}, {{Key: 0}}},
					}
					cells = append(cells, Cell{ID: c.ID()})
				}
			}
		}
	}

	// The builder fails with an error that satisfies ErrWithExpiredItem and carries a value of something else (handed
	// through from a second-level cache): a failure like any other, the carried value is nobody's result.
	for front := 0; front < 3; front++ {
		for cfgBits := 0; cfgBits < 32; cfgBits++ {
			if tier == "quick" && cfgBits&0x18 != 0x08 && cfgBits != 0 {
				continue
			}

			for _, init := range []string{"A", "S", "T"} {
				c := FCfg{
					Front: front, SU: boolBits(cfgBits, 0), SR: boolBits(cfgBits, 1), FH: boolBits(cfgBits, 2),
					MS: boolBits(cfgBits, 3), FTNeg: boolBits(cfgBits, 4),
					Init: init, FailC: "0", Script: "x", Threads: [][]GOp{{{Key: 0}}, {{Key: 0}}},
				}
				cells = append(cells, Cell{ID: c.ID()})
			}
		}
	}

	// Two DIFFERENT keys with the SAME xxhash64 (constructed): a collision may cost a miss in the backend,
	// but a Get must never return the other key's value or error.
	for front := 0; front < 3; front++ {
		for _, su := range []bool{false, true} {
			for _, sr := range []bool{false, true} {
				for _, init := range []string{"AA", "SA", "SS", "TA"} {
					for _, sc := range []string{"o", "f", "of"} {
						c := FCfg{Front: front, SU: su, SR: sr, MS: true, Init: init, FailC: "00", Script: sc, Collide: true,
							Threads: [][]GOp{{{Key: 0}}, {{Key: 1}}}}
						cells = append(cells, Cell{ID: c.ID()})
					}
				}
			}
		}
	}

	// The caller builds its keys in one buffer and reuses it for the next Get (as bench/failover.go does) while a
	// background update of the previous key may still be running: every result still belongs to the key asked for.
	for front := 0; front < 3; front++ {
		for _, su := range []bool{false, true} {
			for _, sr := range []bool{false, true} {
				for _, init := range []string{"SA", "SS", "ST", "TS"} {
					for _, sc := range []string{"o", "f", "of"} {
						c := FCfg{Front: front, SU: su, SR: sr, MS: true, Init: init, FailC: "00", Script: sc,
							Threads: [][]GOp{{{Key: 0, Reuse: true}, {Key: 1, Reuse: true}}, {{Key: 1}}}}
						cells = append(cells, Cell{ID: c.ID()})
					}
				}
			}
		}
	}

	// A failure cached long ago is still lying in the failure cache as an EXPIRED entry: it is no recent failure and
	// nothing of it (nor of the failure cache's own "expired" answer) may come out of Get.
	for front := 0; front < 6; front++ {
		for cfgBits := 0; cfgBits < 16; cfgBits++ {
			for _, init := range []string{"A", "S", "T"} {
				for _, sc := range []string{"o", "f"} {
					c := FCfg{
						Front: front, SU: boolBits(cfgBits, 0), SR: boolBits(cfgBits, 1), FH: boolBits(cfgBits, 2),
						MS: boolBits(cfgBits, 3), Init: init, FailC: "1", Script: sc, Tags: []string{"failexpired"},
						Threads: [][]GOp{{{Key: 0}}, {{Key: 0}}},
					}
					cells = append(cells, Cell{ID: c.ID()})
				}
			}
		}
	}

	return cells
}

func c02Run(c Cell, env *Env) CellResult {
	cfg := parseFCfg(c.ID)
	opt := vsched.Options{PreemptionBound: 2, EnvBound: 1, HBCache: true}

	if env.Thorough() {
		opt = vsched.Options{PreemptionBound: 3, EnvBound: 2, HBCache: true, MaxExecs: 300000}
	}

	return exploreF(cfg, env, opt, nil, func(h *fh, r *vsched.Result) []Violation {
		return provenance(h, "C02")
	})
}

func init() {
	Register(&Prop{
		ID: "C02", Title: "Failover results always have provenance; nothing is fabricated or mixed up",
		Cells: c02Cells, Run: c02Run,
		Rule: "cell = front-end x 32 configurations x entry state x builder script x client program (two Gets on one key; one of them under SkipRead; two keys) x fault injection on/off; plus two constructed hash-colliding keys, a caller reusing one key buffer for successive Gets, a builder whose error satisfies ErrWithExpiredItem and carries a foreign value, and a caller whose context is cancelled before its Get; " +
			"per cell all schedules within the preemption bound, and with faults on every backend Read/Write call position failing (at most 1 quick / 2 thorough per execution); " +
			"values and errors are tokens (key, origin, n), every returned pair is traced back to a finished builder invocation, the preloaded content or an injected fault",
		Assumptions: []string{
			"values are comparable token structs; FailoverOf is instantiated with the token type, so the zero value is recognisable",
			"code between two synchronisation operations runs atomically",
			"quick: preemption bound 2, one fault; thorough: bound 3, two faults, 3 threads, capped at 300k executions per cell",
		},
	})
}
