package harness

import (
	"context"
	"fmt"
	"strings"
	"time"

	"verif/vclock"
	"verif/vsched"
)

// C04 — Get always completes and key locks are always released (DESIGN §C04).

type followUp struct {
	key     int
	built1  int
	r1      FEv
	built2  int
	r2      FEv
	wantTok Tok
	// quiescent observation (before any time passes): only when every build succeeds and no fault is injected
	q      FEv
	qDone  bool
	qBuilt int
	qWant  Tok
	// the same after a backend fault (which is over by then): nobody's builder failed, so nothing is there to be refused with
	qf     FEv
	qfDone bool
}

type c04Obs struct {
	locks   int
	follows []followUp
	script  string // the builder script of the scenario proper (the follow-up phase switches to "o")
}

var c04Last *c04Obs

// c04Post runs at quiescence, still under the scheduler (thread 0): lock accounting, then the black-box
// confirmation that every key can be built again and that the last completed build is what is observed.
func c04Post(h *fh) {
	obs := &c04Obs{locks: h.front.KeyLocks(), script: h.cfg.Script}
	c04Last = obs

	// First, with no time passing: where every build succeeded and nothing was rejected, a Get now observes the
	// result of the last completed build of its key and has nothing to build.
	quiet := map[int]followUp{}

	if h.cfg.Script == "o" && !h.cfg.Faults {
		for k := range h.names {
			nb := h.nbuild[k]
			if nb == 0 {
				continue
			}

			key := append([]byte(nil), h.keys[k]...)
			h.ev(FEv{Kind: "get-start", Key: k, Name: "quiescent"})
			t, isNil, _, err := h.front.Get(context.Background(), key, h.builder(k))
			e := FEv{Kind: "get-end", Key: k, Tok: t, Nil: isNil, Err: err, Name: "quiescent"}
			h.ev(e)
			vsched.Join()

			quiet[k] = followUp{q: e, qDone: true, qBuilt: h.nbuild[k] - nb, qWant: Tok{K: h.names[k], O: "b", N: nb - 1}}
		}
	}

	if h.cfg.Script == "o" && h.cfg.Faults {
		// The backend has recovered. No builder failed, so there is no failure to remember: a Get now (no time passing)
		// gets a value - a cached one or one it builds.
		h.cfg.Faults = false

		for k := range h.names {
			key := append([]byte(nil), h.keys[k]...)
			h.ev(FEv{Kind: "get-start", Key: k, Name: "quiescent"})
			t, isNil, _, err := h.front.Get(context.Background(), key, h.builder(k))
			e := FEv{Kind: "get-end", Key: k, Tok: t, Nil: isNil, Err: err, Name: "quiescent"}
			h.ev(e)
			vsched.Join()

			fu := quiet[k]
			fu.qf, fu.qfDone = e, true
			quiet[k] = fu
		}
	}

	if h.cfg.BUnl {
		// the backend never expires anything on its own: only Failover's own lifetimes (UpdateTTL of the re-stored stale
		// copy, FailedUpdateTTL of the remembered failure) can make the key buildable again - and they must
		vclock.Advance(updateTTL + failedTTL + 2*time.Second)
	} else {
		vclock.Advance(2 * time.Hour) // everything stored so far is expired beyond MaxStaleness, cached failures are gone
	}
	h.cfg.Script = "o"
	h.cfg.Faults = false // the confirmation phase itself runs fault-free

	for k := range h.names {
		fu := quiet[k]
		fu.key = k
		nb := h.nbuild[k]
		fu.wantTok = Tok{K: h.names[k], O: "b", N: nb}

		get := func() FEv {
			key := append([]byte(nil), h.keys[k]...)
			h.ev(FEv{Kind: "get-start", Key: k, Name: "follow-up"})
			t, isNil, _, err := h.front.Get(context.Background(), key, h.builder(k))
			e := FEv{Kind: "get-end", Key: k, Tok: t, Nil: isNil, Err: err, Name: "follow-up"}
			h.ev(e)
			vsched.Join() // let a background build finish

			return e
		}

		fu.r1 = get()
		fu.built1 = h.nbuild[k] - nb
		fu.r2 = get()
		fu.built2 = h.nbuild[k] - nb - fu.built1
		obs.follows = append(obs.follows, fu)
	}
}

func c04Check(h *fh, r *vsched.Result) []Violation {
	var vs []Violation

	front := frontNames[h.cfg.Front]
	obs := c04Last

	mode := "plain"

	for _, ops := range h.cfg.Threads {
		for _, op := range ops {
			switch {
			case op.Mut:
				mode = "key-mutated-after-return"
			case op.Reuse:
				mode = "key-buffer-reused"
			case op.Cancel && mode == "plain":
				mode = "context-cancelled-after-return"
			}
		}
	}

	if h.cfg.Faults {
		mode += "+backend-fault"
	}

	if obs.locks != 0 {
		vs = append(vs, Violation{Signature: fmt.Sprintf("C04 %s lock-leak %s", front, mode),
			Detail: fmt.Sprintf("%d key locks still held after all Gets and background builds finished", obs.locks)})
	}

	for _, fu := range obs.follows {
		key := h.names[fu.key]

		if fu.qDone && (fu.q.Err != nil || fu.q.Nil || fu.q.Tok != fu.qWant || fu.qBuilt != 0) {
			vs = append(vs, Violation{Signature: fmt.Sprintf("C04 %s quiescent-not-last-build %s", front, mode),
				Detail: fmt.Sprintf("with all Gets and builds finished (all builds succeeded, no time passed) a Get(%s) returned (%v nil=%v, %v) and built %d times; want the last completed build %v without building", key, fu.q.Tok, fu.q.Nil, fu.q.Err, fu.qBuilt, fu.qWant)})
		}

		if fu.qfDone && (fu.qf.Err != nil || fu.qf.Nil || fu.qf.Tok.K != key) {
			vs = append(vs, Violation{Signature: fmt.Sprintf("C04 %s refused-after-backend-recovered %s", front, mode),
				Detail: fmt.Sprintf("every builder invocation succeeded and the backend fault is over, yet a Get(%s) at quiescence returned (%v nil=%v, %v): the key cannot be built again", key, fu.qf.Tok, fu.qf.Nil, fu.qf.Err)})
		}

		if fu.built1 != 1 {
			vs = append(vs, Violation{Signature: fmt.Sprintf("C04 %s follow-up-no-build %s", front, mode),
				Detail: fmt.Sprintf("after forced expiry a Get(%s) invoked the builder %d times (want 1): the key cannot be rebuilt", key, fu.built1)})

			continue
		}

		if fu.r2.Err != nil || fu.r2.Nil || fu.r2.Tok != fu.wantTok || fu.built2 != 0 {
			vs = append(vs, Violation{Signature: fmt.Sprintf("C04 %s follow-up-stale %s", front, mode),
				Detail: fmt.Sprintf("second follow-up Get(%s) returned (%v nil=%v, %v) with %d more builds; want the last completed build %v without building", key, fu.r2.Tok, fu.r2.Nil, fu.r2.Err, fu.built2, fu.wantTok)})
		}
	}

	// A Get that has completed has a result: a value or an error (a builder panic leaves its waiters with neither,
	// by design of the original; that script is exempt).
	if !strings.Contains(obs.script, "p") {
		for _, e := range h.log {
			if e.Kind == "get-end" && e.Name != "follow-up" && e.Name != "quiescent" && e.Err == nil && e.Nil {
				vs = append(vs, Violation{Signature: fmt.Sprintf("C04 %s completed-without-result %s", front, mode),
					Detail: fmt.Sprintf("a Get of key %d returned neither a value nor an error although the Gets and builds it depended on had finished", e.Key)})
			}
		}
	}

	// Builder context of background builds must not be cancelled (observed inside the builder).
	for _, e := range h.log {
		if (e.Kind == "build-start" || e.Kind == "build-end") && e.Ctx.Err != nil {
			vs = append(vs, Violation{Signature: fmt.Sprintf("C04 %s build-context-cancelled", front),
				Detail: fmt.Sprintf("builder for key %d observed ctx.Err()=%v", e.Key, e.Ctx.Err)})
		}
	}

	return vs
}

func c04Cells(tier string) []Cell {
	var cells []Cell

	progs := [][][]GOp{
		{{{Key: 0, Mut: true}}, {{Key: 0}}},
		{{{Key: 0, Cancel: true}}, {{Key: 0}}},
		{{{Key: 0, Reuse: true}, {Key: 1, Reuse: true}}, {{Key: 0}}},
		{{{Key: 0}}, {{Key: 0}}},
		{{{Key: 0}}, {{Key: 0, Skip: true}}}, // a forced refresh joins (or is joined by) a plain Get
	}

	for front := 0; front < 3; front++ {
		for cfgBits := 0; cfgBits < 32; cfgBits++ {
			if tier == "quick" && !(cfgBits&0x18 == 0x08 || cfgBits == 0 || cfgBits == 0x10 || cfgBits == 0x12) {
				continue // quick: SU x SR x FH with MS=1m/FT default, plus MS=0 and FT=-1 representatives
			}

			for _, init := range []string{"A", "F", "S", "T"} {
				for _, sc := range []string{"o", "f", "p"} {
					for pi, p := range progs {
						for _, faults := range []bool{false, true} {
							if faults && (pi == 1 || (tier == "quick" && cfgBits&0x18 != 0x08)) {
								continue
							}

							// a panicking builder (recovered by the caller): the plain two-Get program only
							if sc == "p" && (pi != 3 || faults) {
								continue
							}

							c := FCfg{
								Front: front, SU: boolBits(cfgBits, 0), SR: boolBits(cfgBits, 1), FH: boolBits(cfgBits, 2),
								MS: boolBits(cfgBits, 3), FTNeg: boolBits(cfgBits, 4),
								Init: init, FailC: "0", Script: sc, Threads: p, Faults: faults, Follow: true,
							}

							if pi == 2 {
								c.Init = init + "S"
								c.FailC = "00"
							}

							cells = append(cells, Cell{ID: c.ID()})

							// a backend that never expires entries by itself, and an update that fails: after UpdateTTL and
							// FailedUpdateTTL the key must be buildable again
							if pi == 3 && !faults && sc == "f" && init != "F" && cfgBits&0x18 == 0x08 {
								u := c
								u.BUnl = true
								cells = append(cells, Cell{ID: u.ID()})
							}

							// long keys (100 bytes, the first 70 shared): the plain and the buffer-reusing programs
							if (pi == 3 || pi == 2) && !faults && sc != "p" && cfgBits&0x18 == 0x08 {
								l := c
								l.Tags = []string{"longkeys"}
								cells = append(cells, Cell{ID: l.ID()})
							}

							// the backend has been walked by somebody who gave up half-way (a dump to a broken connection):
							// the Gets that follow must complete all the same
							if pi == 3 && !faults && init != "A" && cfgBits&0x18 == 0x08 {
								w := c
								w.Tags = []string{"walkfail"}
								cells = append(cells, Cell{ID: w.ID()})
							}
						}
					}
				}
			}
		}
	}

	return cells
}

func c04Run(c Cell, env *Env) CellResult {
	cfg := parseFCfg(c.ID)
	opt := vsched.Options{PreemptionBound: 2, EnvBound: 1, HBCache: true}

	if env.Thorough() {
		opt = vsched.Options{PreemptionBound: 3, EnvBound: 2, HBCache: true, MaxExecs: 300000}
	}

	return exploreF(cfg, env, opt, c04Post, c04Check)
}

func init() {
	Register(&Prop{
		ID: "C04", Title: "Get always completes and key locks are always released",
		Cells: c04Cells, Run: c04Run,
		Rule: "cell = front-end x configuration x entry state x builder outcome x caller behaviour after return (overwrite the key buffer, reuse one buffer for the next Get as bench/failover.go does, cancel the context, nothing) x backend fault on/off; " +
			"all schedules within the preemption bound incl. every position of the caller's buffer overwrite relative to the background build; termination is decided by the scheduler's deadlock detection, " +
			"keys of 13 and of 100 bytes; builder scripts: all succeed / all fail / all panic on the caller's goroutine (the caller recovers); key locks are counted at quiescence through a verif-tagged accessor; where all builds succeed a Get at quiescence (no time passing) must return the last completed build without building (after a backend fault: must return a value of its key); and a black-box follow-up (forced expiry, two more Gets per key) must build exactly once and observe that build",
		Assumptions: []string{
			"deadlock = no runnable controlled thread while some are blocked; no wall-clock time-out is used as an oracle",
			"the follow-up phase runs under the scheduler after all worker threads joined",
		},
	})
}
