package harness

import (
	"context"
	"encoding/json"
	"errors"
	"fmt"
	"math"
	"sort"
	"strings"
	"time"

	"github.com/bool64/cache"

	"verif/vclock"
)

// C12 — eviction fires only on limit breach, removes the right amount in strategy order (DESIGN §C12).

type c12Cell struct {
	Backend  string  `json:"backend"`
	Strategy int     `json:"strategy"` // 0 MostExpired 1 LRU 2 LFU
	Limit    int     `json:"limit"`
	Frac     float64 `json:"frac"`
	Needed   string  `json:"needed"`        // nil | false | true
	Mem      string  `json:"mem,omitempty"` // memory soft limits that can never be exceeded: "" | heap | sys | both
}

func (c c12Cell) id() string { js, _ := json.Marshal(c); return string(js) }

var strategyNames = []string{"MostExpired", "LRU", "LFU"}

func c12Cells(tier string) []Cell {
	var cells []Cell

	limits := []int{1, 2, 3, 4, 6}
	if tier == "thorough" {
		limits = []int{1, 2, 3, 4, 5, 6, 7}
	}

	for _, b := range backendKinds {
		for s := 0; s < 3; s++ {
			for _, l := range limits {
				for _, f := range []float64{0, 0.1, 0.25, 0.5, 0.9, 1} {
					for _, en := range []string{"nil", "false", "true"} {
						cells = append(cells, Cell{ID: c12Cell{Backend: b, Strategy: s, Limit: l, Frac: f, Needed: en}.id()})

						if f == 0.5 && en != "true" && (l == 2 || l == 6) {
							for _, mem := range []string{"heap", "sys", "both"} {
								cells = append(cells, Cell{ID: c12Cell{Backend: b, Strategy: s, Limit: l, Frac: f, Needed: en, Mem: mem}.id()})
							}
						}
					}
				}
			}
		}
	}

	// a memory limit that IS exceeded (one byte of heap) together with a count limit: the count breach still decides
	// how much goes (appended: the indices of the cells above stay what they were)
	for _, b := range backendKinds {
		for s := 0; s < 3; s++ {
			for _, l := range []int{2, 6} {
				for _, f := range []float64{0.25, 0.5} {
					cells = append(cells, Cell{ID: c12Cell{Backend: b, Strategy: s, Limit: l, Frac: f, Needed: "nil", Mem: "heap1"}.id()})
				}
			}
		}
	}

	// a memory limit (always exceeded) as the only configured trigger
	for _, b := range backendKinds {
		for s := 0; s < 3; s++ {
			for _, f := range []float64{0.25, 0.5} {
				for _, mem := range []string{"sys1only", "heap1only"} {
					cells = append(cells, Cell{ID: c12Cell{Backend: b, Strategy: s, Limit: 6, Frac: f, Needed: "nil", Mem: mem}.id()})
				}
			}
		}
	}

	return cells
}

type c12Case struct {
	N       int   `json:"n"`
	Reads   []int `json:"reads"`
	Ties    bool  `json:"ties"`
	Micro   bool  `json:"micro,omitempty"`   // operations are 1us apart instead of 1s
	NoStats bool  `json:"nostats,omitempty"` // no StatsTracker attached (the metric oracle is skipped)
	Unl     bool  `json:"unl,omitempty"`     // TimeToLive is UnlimitedTTL and the entries are written without a TTL: nothing ever expires
	Exp     int   `json:"exp,omitempty"`     // that many additional entries which are long expired: the cycle deletes them before it looks at the limits
}

// history steps beyond the reads of key-000..key-003
const (
	c12ExpireAll = 4
	c12Rewrite   = 5
	c12Load0     = 6 // key-000 served through Load (the sync.Map-style entry point) instead of Read
	c12Load2     = 7 // key-002 likewise
)

type c12stats struct{ evict []float64 }

func (s *c12stats) Add(ctx context.Context, name string, v float64, lv ...string) {
	if name == cache.MetricEvict {
		s.evict = append(s.evict, v)
	}
}
func (s *c12stats) Set(ctx context.Context, name string, v float64, lv ...string) {}

type c12Entry struct {
	key    string
	expiry int64
	last   int64
	count  int64
}

func (e c12Entry) rank(strategy int) int64 {
	switch strategy {
	case 1:
		return e.last
	case 2:
		return e.count
	}

	return e.expiry
}

// c12One runs one history and returns a violation kind + detail ("" = ok), an outcome label and the op count.
func c12One(cc c12Cell, cs c12Case) (string, string, string, int) {
	vclock.Reset()

	st := &c12stats{}
	neededCalls := 0
	cfg := cache.Config{
		Name: "c12", ExpirationJitter: -1, TimeToLive: time.Hour, CountSoftLimit: uint64(cc.Limit), EvictFraction: cc.Frac,
		EvictionStrategy: cache.EvictionStrategy(cc.Strategy), Stats: st,
	}

	if cs.NoStats {
		cfg.Stats = nil
	}

	if cs.Unl {
		cfg.TimeToLive = cache.UnlimitedTTL
	}

	// a soft limit of 2^62 bytes is configured but can never be exceeded: it must not cause eviction
	if cc.Mem == "heap" || cc.Mem == "both" {
		cfg.HeapInUseSoftLimit = 1 << 62
	}

	// a heap limit of one byte is exceeded in every cycle: each cycle evicts - EvictFraction of the entries, or, if
	// the count limit is exceeded too, down to the count target
	if cc.Mem == "heap1" {
		cfg.HeapInUseSoftLimit = 1
	}

	if cc.Mem == "sys" || cc.Mem == "both" {
		cfg.SysMemSoftLimit = 1 << 62
	}

	// a memory limit as the ONLY configured trigger, exceeded in every cycle: each cycle evicts EvictFraction of the
	// entries, in strategy order
	if cc.Mem == "sys1only" {
		cfg.SysMemSoftLimit, cfg.CountSoftLimit = 1, 0
	}

	if cc.Mem == "heap1only" {
		cfg.HeapInUseSoftLimit, cfg.CountSoftLimit = 1, 0
	}

	switch cc.Needed {
	case "false":
		cfg.EvictionNeeded = func() bool { neededCalls++; return false }
	case "true":
		cfg.EvictionNeeded = func() bool { neededCalls++; return true }
	}

	b := newBackend(cc.Backend, cfg)
	ctx := context.Background()
	ops := 0
	model := map[string]*c12Entry{}

	tick := func() {
		switch {
		case cs.Micro:
			vclock.Advance(time.Microsecond)
		case !cs.Ties:
			vclock.Advance(time.Second)
		}
	}

	for i := 0; i < cs.N; i++ {
		k := fmt.Sprintf("key-%03d", i)
		// distinct expiries (unless ties are requested): later keys expire earlier, so that the
		// expiry order differs from the insertion order.
		ttl := time.Duration(200-i) * time.Minute
		if cs.Ties {
			ttl = time.Duration(200-i/2) * time.Minute
		}

		wctx := cache.WithTTL(ctx, ttl, false)
		if cs.Unl {
			wctx = ctx // never-expiring entries: limits apply to them like to any other
		}

		if err := b.Write(wctx, []byte(k), i); err != nil {
			return "write", err.Error(), "", ops
		}

		model[k] = &c12Entry{key: k, expiry: vclock.NowQuiet().Add(ttl).UnixNano()}
		if cs.Unl {
			model[k].expiry = 0
		}
		ops++

		tick()
	}

	for _, r := range cs.Reads {
		switch {
		case r == c12ExpireAll:
			// expiry moves, serve history (count / last serve) must be carried over
			now := vclock.NowQuiet().UnixNano()

			b.ExpireAll(ctx)

			for _, e := range model {
				e.expiry = now
			}

			ops++

			tick()

			continue
		case r == c12Rewrite:
			// a new value under key-001 has not been served yet
			if cs.N < 2 {
				continue
			}

			k := "key-001"
			ttl := 199 * time.Minute

			if err := b.Write(cache.WithTTL(ctx, ttl, false), []byte(k), 1001); err != nil {
				return "write", err.Error(), "", ops
			}

			model[k] = &c12Entry{key: k, expiry: vclock.NowQuiet().Add(ttl).UnixNano()}
			ops++

			tick()

			continue
		case r == c12Load0 || r == c12Load2:
			idx := 0
			if r == c12Load2 {
				idx = 2
			}

			if idx >= cs.N || b.Kind() == "SyncMap" {
				continue // SyncMap has no Load
			}

			k := fmt.Sprintf("key-%03d", idx)
			now := vclock.NowQuiet().UnixNano()

			// a serve is a serve, whichever entry point it came through
			_, _ = b.Load([]byte(k))

			model[k].last = now
			model[k].count++
			ops++

			tick()

			continue
		case r >= cs.N:
			continue
		}

		k := fmt.Sprintf("key-%03d", r)
		now := vclock.NowQuiet().UnixNano()

		// an expired entry is served too (as a stale value): it counts as use
		if _, err := b.Read(ctx, []byte(k)); err != nil && !errors.Is(err, cache.ErrExpired) {
			return "read", err.Error(), "", ops
		}

		model[k].last = now
		model[k].count++
		ops++

		tick()
	}

	for i := 0; i < cs.Exp; i++ {
		if err := b.Write(cache.WithTTL(ctx, -48*time.Hour, false), []byte(fmt.Sprintf("exp-%03d", i)), -1); err != nil {
			return "write", err.Error(), "", ops
		}

		ops++
	}

	frac := cc.Frac
	if frac == 0 {
		frac = 0.1
	}

	cycle := func(label string) (string, string) {
		before := map[string]bool{}
		for k := range model {
			before[k] = true
		}

		n := len(model)
		st.evict = nil

		b.Cleanup()
		ops++

		kept := map[string]bool{}
		_, _ = b.Walk(func(k []byte, v interface{}, at time.Time) error {
			kept[string(k)] = true
			return nil
		})

		for k := range kept {
			if strings.HasPrefix(k, "exp-") {
				return "expired-entry-kept", fmt.Sprintf("%s: entry %q, expired for 48h, survived the cycle", label, k)
			}

			if !before[k] {
				return "fabricated", fmt.Sprintf("%s: entry %q appeared during cleanup", label, k)
			}
		}

		removed := n - len(kept)
		memOnly := cc.Mem == "sys1only" || cc.Mem == "heap1only"
		breach := n > cc.Limit && !memOnly
		needed := cc.Needed == "true" || cc.Mem == "heap1" || memOnly

		if !breach && !needed {
			if removed != 0 {
				return "evict-without-breach", fmt.Sprintf("%s: %d of %d entries removed although count limit %d is not exceeded and EvictionNeeded=%s", label, removed, n, cc.Limit, cc.Needed)
			}

			if !cs.NoStats && len(st.evict) != 0 {
				return "metric-without-eviction", fmt.Sprintf("%s: cache_evict emitted (%v) although no eviction was due", label, st.evict)
			}

			return "", "none"
		}

		if breach {
			target := float64(cc.Limit) * (1 - frac)
			if math.Abs(float64(len(kept))-target) > 1+1e-9 {
				return "amount-breach", fmt.Sprintf("%s: %d entries, limit %d, fraction %v: %d remain, want within one entry of %.2f", label, n, cc.Limit, frac, len(kept), target)
			}
		} else {
			want := float64(n) * frac
			if math.Abs(float64(removed)-want) >= 1+1e-9 {
				return "amount-needed", fmt.Sprintf("%s: EvictionNeeded with %d entries, fraction %v: %d removed, want within one entry of %.2f", label, n, frac, removed, want)
			}
		}

		if !cs.NoStats && (len(st.evict) != 1 || int(st.evict[0]) != removed) {
			return "metric", fmt.Sprintf("%s: cache_evict emitted %v, %d entries were actually removed", label, st.evict, removed)
		}

		// Strategy order: every removed entry ranks no higher than every kept entry.
		var maxRemoved, minKept int64 = math.MinInt64, math.MaxInt64

		var rk, kk string

		for k, e := range model {
			r := e.rank(cc.Strategy)
			if kept[k] {
				if r < minKept {
					minKept, kk = r, k
				}
			} else if r > maxRemoved {
				maxRemoved, rk = r, k
			}
		}

		if removed > 0 && len(kept) > 0 && maxRemoved > minKept {
			return "order", fmt.Sprintf("%s: strategy %s removed %s (rank %d) but kept %s (rank %d)", label, strategyNames[cc.Strategy], rk, maxRemoved, kk, minKept)
		}

		for k := range model {
			if !kept[k] {
				delete(model, k)
			}
		}

		return "", fmt.Sprintf("removed=%d", removed)
	}

	kind, d1 := cycle("first cycle")
	if kind != "" {
		return kind, d1, "", ops
	}

	kind, d2 := cycle("second cycle")
	if kind != "" {
		return kind + "-2nd", d2, "", ops
	}

	breach := "no-breach"
	if cs.N > cc.Limit {
		breach = "breach"
	}

	return "", "", breach + "/" + d1 + "/" + d2, ops
}

func c12Cases(cc c12Cell, tier string) []c12Case {
	var cases []c12Case

	var sizes []int
	for n := 0; n <= cc.Limit+6; n++ {
		sizes = append(sizes, n)
	}

	sizes = append(sizes, 3*cc.Limit+7, 10*cc.Limit)

	histories := [][]int{{}}
	if cc.Strategy != 0 {
		maxLen := 3
		if tier == "thorough" {
			maxLen = 4
		}

		cur := [][]int{{}}
		for l := 0; l < maxLen; l++ {
			var next [][]int

			for _, h := range cur {
				for k := 0; k < 4; k++ {
					next = append(next, append(append([]int{}, h...), k))
				}
			}

			histories = append(histories, next...)
			cur = next
		}
	}

	for _, n := range sizes {
		for _, h := range histories {
			if len(h) > 0 && n == 0 {
				continue
			}

			cases = append(cases, c12Case{N: n, Reads: h}, c12Case{N: n, Reads: h, Ties: true})

			if len(h) > 0 {
				cases = append(cases, c12Case{N: n, Reads: h, Micro: true})
			}
		}
	}

	// a cache whose entries never expire (UnlimitedTTL, no per-call TTL): sizes around and above the limit, with a few reads
	for _, n := range []int{cc.Limit - 1, cc.Limit, cc.Limit + 1, cc.Limit + 3, 3*cc.Limit + 7} {
		if n < 0 {
			continue
		}

		for _, h := range [][]int{{}, {0}, {1, 0}, {2, 2, 1}} {
			cases = append(cases, c12Case{N: n, Reads: h, Unl: true})
		}
	}

	// the limits are looked at after the expired-items step: long-expired entries on top of the live ones must not
	// count (sizes around the limit, no access history)
	for _, n := range []int{cc.Limit - 1, cc.Limit, cc.Limit + 1, cc.Limit + 3} {
		if n < 0 {
			continue
		}

		for _, exp := range []int{1, 3} {
			cases = append(cases, c12Case{N: n, Exp: exp}, c12Case{N: n, Exp: exp, Ties: true})
		}
	}

	// histories that also contain ExpireAll (serve history must survive it) and a re-write of a key (a new value has
	// no serve history), on two sizes above the limit
	if cc.Strategy != 0 {
		var ext [][]int

		cur := [][]int{{}}
		for l := 0; l < 3; l++ {
			var next [][]int

			for _, h := range cur {
				for k := 0; k < 6; k++ {
					next = append(next, append(append([]int{}, h...), k))
				}
			}

			cur = next

			for _, h := range next {
				for _, k := range h {
					if k >= c12ExpireAll {
						ext = append(ext, h)
						break
					}
				}
			}
		}

		for _, n := range []int{cc.Limit + 2, 3*cc.Limit + 7} {
			for _, h := range ext {
				cases = append(cases, c12Case{N: n, Reads: h}, c12Case{N: n, Reads: h, Micro: true})
			}
		}

		// serves through Load next to serves through Read, with and without a tracker attached
		var loads [][]int

		cur = [][]int{{}}
		for l := 0; l < 3; l++ {
			var next [][]int

			for _, h := range cur {
				for _, k := range []int{0, 1, 2, 3, c12Load0, c12Load2} {
					next = append(next, append(append([]int{}, h...), k))
				}
			}

			cur = next

			for _, h := range next {
				for _, k := range h {
					if k >= c12Load0 {
						loads = append(loads, h)
						break
					}
				}
			}
		}

		for _, h := range loads {
			n := cc.Limit + 3
			cases = append(cases, c12Case{N: n, Reads: h}, c12Case{N: n, Reads: h, NoStats: true})
		}
	}

	return cases
}

func c12Run(c Cell, env *Env) CellResult {
	var cc c12Cell
	_ = json.Unmarshal([]byte(c.ID), &cc)

	res := CellResult{Exhaustive: true, Outcomes: map[string]int{}}
	cases := c12Cases(cc, env.Tier)

	if env.Replay != nil {
		var cs c12Case
		_ = json.Unmarshal(env.Replay.Extra, &cs)
		cases = []c12Case{cs}
	}

	seen := map[string]bool{}
	states := map[string]bool{}

	for i, cs := range cases {
		if i%256 == 0 && time.Now().After(env.Deadline) {
			res.Exhaustive = false
			res.CapHit = "deadline"

			break
		}

		kind, detail, outcome, ops := c12One(cc, cs)
		res.Execs++
		res.Transitions += ops

		if kind != "" {
			sig := fmt.Sprintf("C12 %s %s %s", cc.Backend, strategyNames[cc.Strategy], kind)
			if !seen[sig] {
				seen[sig] = true
				js, _ := json.Marshal(cs)
				res.Violations = append(res.Violations, Violation{Signature: sig, Detail: fmt.Sprintf("%s (n=%d reads=%v ties=%v)", detail, cs.N, cs.Reads, cs.Ties), Extra: js})
			}

			continue
		}

		res.Outcomes[outcome]++
		states[fmt.Sprintf("%d|%v|%v|%s", cs.N, cs.Reads, cs.Ties, outcome)] = true

		if res.Sample == nil && cs.N > cc.Limit && len(cs.Reads) > 0 {
			res.Sample = map[string]interface{}{"entries": cs.N, "reads": cs.Reads, "ties": cs.Ties, "result": outcome}
		}
	}

	res.States = len(states)
	res.MaxDepth = 10*cc.Limit + 5

	return res
}

func init() {
	Register(&Prop{
		ID: "C12", Title: "Eviction fires only on limit breach, removes the right amount in strategy order",
		Cells: c12Cells, Run: c12Run,
		Rule: "complete grid CountSoftLimit x EvictFraction {default,0.1,0.25,0.5,0.9,1} x strategy {MostExpired,LRU,LFU} x EvictionNeeded {nil,false,true} x 3 backends; " +
			"per cell every size 0..L+6, 3L+7, 10L x every read history of length <=3 (quick) / <=4 (thorough) over 4 keys x {operations 1s apart, 1us apart, all at one instant (tied ranks)}; sizes around the limit on a cache whose entries never expire (UnlimitedTTL); sizes around the limit with 1 or 3 additional long-expired entries (deleted by the cycle before it looks at the limits); for LRU/LFU also every history of length <=3 over {4 reads, ExpireAll, re-write of a key} on two sizes above the limit, and over {4 reads, 2 serves through Load} with and without a StatsTracker attached; two cleanup cycles through the janitor's own invokeCleanup; " +
			"oracle: no eviction without breach, amount within one entry of the documented target, removed ranks <= kept ranks, cache_evict equals the entries actually removed",
		Assumptions: []string{
			"HeapInUseSoftLimit / SysMemSoftLimit depend on runtime.ReadMemStats, which is not a seam the harness owns; the shared code path after the decision is exercised through EvictionNeeded, and cells with limits of 2^62 bytes (heap only, sys only, both) check that a configured but unexceeded memory limit never evicts",
			"all entries carry an expiry (never-expiring entries under MostExpired are outside the statement)",
			"virtual clock advances 1s between operations so that LRU ranks are distinct; the ties variant advances nothing",
		},
	})
}

var (
	_ = sort.Strings
	_ = strings.Join
)
