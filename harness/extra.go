package harness

// extraCmds are additional sub-commands of the harness binary (e.g. the per-process gob hash probe of C14).
var extraCmds = map[string]func(args []string){}

// Extra dispatches an additional sub-command.
func Extra(args []string) bool {
	if f, ok := extraCmds[args[0]]; ok {
		f(args[1:])
		return true
	}

	return false
}
