package harness

import (
	"context"
	"encoding/json"
	"errors"
	"fmt"
	"math/big"
	"time"

	"github.com/bool64/cache"

	"verif/vclock"
	"verif/vsched"
)

// C10 — every entry's expiry lies within the documented TTL bounds (DESIGN §C10).

type c10Cell struct {
	Front   int     `json:"front,omitempty"` // Level "failover": front-end index
	Backend string  `json:"backend"`
	Jitter  float64 `json:"jitter"` // -1 off, 0 default(0.1), 0.5, 1
	Level   string  `json:"level"`  // config | context | both | unlimited | unlimited+context
}

func (c c10Cell) id() string { js, _ := json.Marshal(c); return string(js) }

func c10Cells(tier string) []Cell {
	var cells []Cell

	for _, b := range backendKinds {
		for _, j := range []float64{-1, 0, 0.5, 1, 0.01} {
			for _, l := range []string{"config", "context", "both", "unlimited", "unlimited+context"} {
				cells = append(cells, Cell{ID: c10Cell{Backend: b, Jitter: j, Level: l}.id()})
			}
		}
	}

	// The same bounds when the write is issued by Failover on behalf of a caller whose context carries the TTL
	// (cold miss, sync and background update of a stale value).
	for front := 0; front < 3; front++ {
		cells = append(cells, Cell{ID: c10Cell{Front: front, Backend: frontNames[front], Jitter: -1, Level: "failover"}.id()})
	}

	return cells
}

// c10Failover: caller TTL x path; the stored entry must expire exactly at t + caller TTL (jitter off).
func c10Failover(cc c10Cell, env *Env) CellResult {
	res := CellResult{Exhaustive: true, Outcomes: map[string]int{}}
	seen := map[string]bool{}

	for _, ttlSec := range []int{10, 45, 3600, 86400} {
		for _, init := range []string{"A", "S", "T"} {
			for _, su := range []bool{false, true} {
				cfg := FCfg{Front: cc.Front, SU: su, MS: true, Init: init, FailC: "0", Script: "o", Threads: [][]GOp{{{Key: 0, TTL: ttlSec}}}}

				var h *fh

				body := func() {
					h = newFH(cfg)
					h.body()
				}

				st := vsched.Explore(vsched.Options{PreemptionBound: -1, EnvBound: 0, HBCache: true, Deadline: env.Deadline}, body, func(r *vsched.Result) bool {
					if r.Deadlock || r.Panic != nil {
						res.Violations = append(res.Violations, Violation{Signature: "C10 failover fatal", Detail: fmt.Sprintf("deadlock=%v panic=%v", r.Deadlock, r.Panic), Choices: r.Choices()})
						return false
					}

					t, isNil, at, found := h.front.Peek(h.keys[0])
					want := vclock.NowQuiet().Add(time.Duration(ttlSec) * time.Second)

					if !found || isNil || t.O != "b" || !at.Equal(want) {
						sig := fmt.Sprintf("C10 %s via-failover expiry init=%s su=%v", frontNames[cc.Front], init, su)
						if !seen[sig] {
							seen[sig] = true
							res.Violations = append(res.Violations, Violation{Signature: sig, Choices: r.Choices(), Trace: h.formatLog(),
								Detail: fmt.Sprintf("Get with caller TTL %ds on an entry in state %s: stored entry %v expires at now%+v (found=%v), want exactly now+%ds", ttlSec, init, t, at.Sub(vclock.NowQuiet()), found, ttlSec)})
						}
					}

					res.Outcomes["failover/"+init]++

					return true
				})

				res.Execs += st.Execs
				res.States += st.HBStates
				res.Transitions += st.Transitions
			}
		}
	}

	res.Sample = map[string]interface{}{"level": "failover", "front": frontNames[cc.Front], "caller_ttls_s": []int{10, 45, 3600, 86400}}

	return res
}

func c10TTLs(tier string) []time.Duration {
	base := []time.Duration{time.Nanosecond, time.Microsecond, time.Second, 5 * time.Minute, 24 * time.Hour, 10 * 365 * 24 * time.Hour,
		100 * 365 * 24 * time.Hour} // -100y puts the expiry instant before the Unix epoch (negative timestamp)
	if tier == "thorough" {
		base = append(base, 2*time.Nanosecond, 7*time.Nanosecond, 333*time.Millisecond, time.Hour+time.Nanosecond,
			20*time.Second, 150*365*24*time.Hour, 3*time.Nanosecond, 999*time.Nanosecond)
		// 150 years is the upper end: expiry instants are kept as int64 Unix nanoseconds (representable up to
		// the year 2262), t+T(1+J/2) must stay inside that range for the statement to be expressible at all
	}

	return base
}

func c10Rands(tier string) []float64 {
	g := []float64{0, 0.25, 0.5, 0.75, 1 - 1.0/(1<<53)}
	if tier == "thorough" {
		g = append(g, 1.0/(1<<53), 0.1, 0.4999999999, 0.5000000001, 0.9, 0.999999)
	}

	return g
}

type c10Case struct {
	Cfg   time.Duration `json:"cfg"`
	Ctx   time.Duration `json:"ctx"`
	Rand  float64       `json:"rand"`
	Wrap  int           `json:"wrap,omitempty"`  // how the write context is composed around the TTL, see c10Wraps
	Pre   int           `json:"pre,omitempty"`   // the key already holds an entry: 1 = written with a context TTL of +7h, 2 = of -7h, 3 = written and then expired by ExpireAll, 4 = no entry, but the write context was used before for a write to another cache
	Store bool          `json:"store,omitempty"` // the entry is written with Store (no context at all; ShardedMap / ShardedMapOf)
}

// c10Wraps: the context TTL has to survive the other context helpers and derived contexts around it.
var c10Wraps = []string{"WithTTL", "WithSkipRead(WithTTL)", "WithTTL(WithSkipRead)", "WithCancel(WithValue(WithTTL))",
	"WithTTL(WithTTL(ctx, 7h), T) - the inner scope shadows the outer one", "WithTTL(holder := WithTTL(ctx, 0), T, updateExisting) - zero-valued holder filled in later"}

// boundsOK checks t+T(1-J/2) <= E <= t+T(1+J/2) exactly (rational arithmetic) with a slack of
// 1ns + |T|*2^-50 for the implementation's float64 arithmetic.
func boundsOK(t, e int64, ttl time.Duration, j float64) (bool, string) {
	d := new(big.Rat).SetInt64(e - t)
	T := new(big.Rat).SetInt64(int64(ttl))
	J := new(big.Rat).SetFloat64(j)
	half := new(big.Rat).Mul(J, big.NewRat(1, 2))
	lo := new(big.Rat).Mul(T, new(big.Rat).Sub(big.NewRat(1, 1), half))
	hi := new(big.Rat).Mul(T, new(big.Rat).Add(big.NewRat(1, 1), half))

	if lo.Cmp(hi) > 0 {
		lo, hi = hi, lo
	}

	absT := new(big.Rat).Abs(T)
	slack := new(big.Rat).Add(big.NewRat(1, 1), new(big.Rat).Mul(absT, big.NewRat(1, 1<<50)))
	lo.Sub(lo, slack)
	hi.Add(hi, slack)

	if d.Cmp(lo) < 0 || d.Cmp(hi) > 0 {
		return false, fmt.Sprintf("E-t=%dns outside [%s, %s]", e-t, lo.FloatString(1), hi.FloatString(1))
	}

	return true, ""
}

func c10One(cc c10Cell, cs c10Case) (string, string, int) {
	vclock.Reset()
	vclock.SetRand(cs.Rand)

	cfg := cache.Config{Name: "c10", ExpirationJitter: cc.Jitter, TimeToLive: cs.Cfg}
	b := newBackend(cc.Backend, cfg)
	ctx := context.Background()
	wctx := ctx

	if cs.Ctx != 0 {
		switch cs.Wrap {
		case 0:
			wctx = cache.WithTTL(ctx, cs.Ctx, false)
		case 1:
			wctx = cache.WithSkipRead(cache.WithTTL(ctx, cs.Ctx, false))
		case 2:
			wctx = cache.WithTTL(cache.WithSkipRead(ctx), cs.Ctx, false)
		case 3:
			var cancel context.CancelFunc

			wctx, cancel = context.WithCancel(context.WithValue(cache.WithTTL(ctx, cs.Ctx, false), plantedKey{}, "x"))
			defer cancel()
		case 4:
			wctx = cache.WithTTL(cache.WithTTL(ctx, 7*time.Hour, false), cs.Ctx, false)
		case 5:
			wctx = cache.WithTTL(ctx, cache.DefaultTTL, false)
			_ = cache.WithTTL(wctx, cs.Ctx, true)
		}
	} else if cs.Wrap == 4 {
		// a scope that asks for the default TTL again inside a scope with a per-call TTL
		wctx = cache.WithTTL(cache.WithTTL(ctx, 7*time.Hour, false), cache.DefaultTTL, false)
	}

	key := []byte("k")
	ops := 0

	// the key's history must not matter: the entry written last decides
	switch cs.Pre {
	case 1:
		_ = b.Write(cache.WithTTL(ctx, 7*time.Hour, false), key, 1)
	case 2:
		_ = b.Write(cache.WithTTL(ctx, -7*time.Hour, false), key, 1)
	case 3:
		_ = b.Write(ctx, key, 1)
		b.ExpireAll(ctx)
	case 4:
		// the write context served before, for a write to ANOTHER cache (TimeToLive 7h): contexts are inputs only
		if cs.Ctx == 0 && cs.Wrap == 0 {
			wctx = cache.WithTTL(ctx, cache.DefaultTTL, false)
		}

		other := newBackend(cc.Backend, cache.Config{Name: "c10other", ExpirationJitter: cc.Jitter, TimeToLive: 7 * time.Hour})
		_ = other.Write(wctx, []byte("other"), 1)
	}

	if cs.Pre != 0 {
		vclock.Advance(time.Second)
		ops++
	}

	t := vclock.NowQuiet().UnixNano()

	if cs.Store {
		b.Store(key, 7)
	} else if err := b.Write(wctx, key, 7); err != nil {
		return "write-failed", err.Error(), ops
	}

	ops++

	var (
		E     time.Time
		found bool
	)

	_, _ = b.Walk(func(k []byte, v interface{}, at time.Time) error {
		E, found = at, true
		return nil
	})
	ops++

	if !found {
		return "walk-empty", "Walk does not report the entry just written", ops
	}

	// Effective TTL.
	eff := cs.Ctx
	unlimited := false

	if eff == 0 {
		switch {
		case cs.Cfg == cache.UnlimitedTTL:
			unlimited = true
		case cs.Cfg == 0:
			eff = 5 * time.Minute
		default:
			eff = cs.Cfg
		}
	}

	if unlimited {
		if E.UnixNano() != 0 {
			return "unlimited-expires", fmt.Sprintf("UnlimitedTTL without context TTL: ExpireAt=%v (unixnano %d), want never (0)", E, E.UnixNano()), ops
		}

		// another key of the same cache gets a per-call TTL (the cache now has expirations to look after), a century
		// passes, and the cleanup cycle runs: "never" means never
		_ = b.Write(cache.WithTTL(ctx, time.Second, false), []byte("short-lived"), 1)

		vclock.Advance(100 * 365 * 24 * time.Hour)
		b.Cleanup()
		ops += 2

		v, err := b.Read(ctx, key)
		ops++

		if err != nil || v != 7 {
			return "unlimited-expired", fmt.Sprintf("UnlimitedTTL entry not served after 100y and a cleanup cycle: (%v, %v)", v, err), ops
		}

		return "", "never", ops
	}

	j := cc.Jitter
	if j == 0 {
		j = 0.1
	}

	if j < 0 {
		if E.UnixNano() != t+int64(eff) {
			return "exact-expiry", fmt.Sprintf("jitter disabled: ExpireAt-t=%dns, want exactly %dns", E.UnixNano()-t, int64(eff)), ops
		}
	} else if ok, msg := boundsOK(t, E.UnixNano(), eff, j); !ok {
		return "bounds", fmt.Sprintf("TTL=%v J=%v rand=%v: %s", eff, j, cs.Rand, msg), ops
	}

	// Reads around the expiry instant.
	now := vclock.NowQuiet().UnixNano()
	if E.UnixNano()-1 > now {
		vclock.Advance(time.Duration(E.UnixNano() - 1 - now))

		v, err := b.Read(ctx, key)
		ops++

		if err != nil || v != 7 {
			return "early-expiry", fmt.Sprintf("read 1ns before ExpireAt returned (%v, %v), want the value", v, err), ops
		}
	}

	now = vclock.NowQuiet().UnixNano()
	if E.UnixNano()+1 > now {
		vclock.Advance(time.Duration(E.UnixNano() + 1 - now))
	}

	v, err := b.Read(ctx, key)
	ops++

	ev, at, isExp := b.Expired(err)
	if !errors.Is(err, cache.ErrExpired) || !isExp {
		return "late-expiry", fmt.Sprintf("read 1ns after ExpireAt returned (%v, %v), want ErrExpired", v, err), ops
	}

	if ev != 7 {
		return "expired-value", fmt.Sprintf("ErrExpired carries value %v, want 7", ev), ops
	}

	if !at.Equal(E) {
		return "expired-at", fmt.Sprintf("ErrExpired.ExpiredAt=%d differs from Walk's ExpireAt=%d", at.UnixNano(), E.UnixNano()), ops
	}

	rel := "in-bounds"
	if j < 0 {
		rel = "exact"
	}

	return "", rel, ops
}

func c10Cases(cc c10Cell, tier string) []c10Case {
	var cases []c10Case

	rands := c10Rands(tier)
	if cc.Jitter < 0 {
		rands = rands[:2]
	}

	signed := func() []time.Duration {
		var r []time.Duration
		for _, d := range c10TTLs(tier) {
			r = append(r, d, -d)
		}

		return r
	}

	for _, rnd := range rands {
		switch cc.Level {
		case "config":
			cases = append(cases, c10Case{Cfg: 0, Rand: rnd}, c10Case{Cfg: 0, Rand: rnd, Wrap: 4}) // default 5m
			for _, d := range signed() {
				if d == cache.UnlimitedTTL {
					continue
				}

				cases = append(cases, c10Case{Cfg: d, Rand: rnd}, c10Case{Cfg: d, Rand: rnd, Wrap: 4})
			}
		case "context":
			for _, d := range signed() {
				for w := range c10Wraps {
					cases = append(cases, c10Case{Ctx: d, Rand: rnd, Wrap: w})
				}
			}
		case "both":
			for _, d := range signed() {
				for _, c := range []time.Duration{time.Hour, -time.Hour, 3 * time.Nanosecond} {
					cases = append(cases, c10Case{Cfg: c, Ctx: d, Rand: rnd})
				}
			}
		case "unlimited":
			cases = append(cases, c10Case{Cfg: cache.UnlimitedTTL, Rand: rnd}, c10Case{Cfg: cache.UnlimitedTTL, Rand: rnd, Wrap: 4})
		case "unlimited+context":
			for _, d := range signed() {
				for w := range c10Wraps {
					cases = append(cases, c10Case{Cfg: cache.UnlimitedTTL, Ctx: d, Rand: rnd, Wrap: w})
				}
			}
		}
	}

	// the context-free entry point: Store stands for a write without any context TTL
	if cc.Backend != "SyncMap" {
		n := len(cases)
		for i := 0; i < n; i++ {
			if cases[i].Ctx == 0 && cases[i].Wrap == 0 {
				c := cases[i]
				c.Store = true
				cases = append(cases, c)
			}
		}
	}

	// every case of the grid with a bare context once more on a key that already holds an entry
	n := len(cases)
	for i := 0; i < n; i++ {
		if cases[i].Wrap != 0 {
			continue
		}

		for pre := 1; pre <= 4; pre++ {
			c := cases[i]
			c.Pre = pre
			cases = append(cases, c)
		}
	}

	return cases
}

func c10Run(c Cell, env *Env) CellResult {
	var cc c10Cell
	_ = json.Unmarshal([]byte(c.ID), &cc)

	if cc.Level == "failover" {
		return c10Failover(cc, env)
	}

	res := CellResult{Exhaustive: true, Outcomes: map[string]int{}}

	cases := c10Cases(cc, env.Tier)
	if env.Replay != nil {
		var cs c10Case
		_ = json.Unmarshal(env.Replay.Extra, &cs)
		cases = []c10Case{cs}
	}

	seen := map[string]bool{}

	for _, cs := range cases {
		kind, detail, ops := c10One(cc, cs)
		res.Execs++
		res.States++
		res.Transitions += ops

		if kind != "" {
			sig := fmt.Sprintf("C10 %s %s level=%s", cc.Backend, kind, cc.Level)
			if !seen[sig] {
				seen[sig] = true
				js, _ := json.Marshal(cs)
				res.Violations = append(res.Violations, Violation{
					Signature: sig, Detail: fmt.Sprintf("%s (config TTL %v, context TTL %v as %s, jitter %v, rand %v, via Store: %v, earlier entry of the key: %s)", detail, cs.Cfg, cs.Ctx, c10Wraps[cs.Wrap], cc.Jitter, cs.Rand, cs.Store, []string{"none", "context TTL +7h", "context TTL -7h", "expired by ExpireAll", "none, but the context was used for a write to another cache"}[cs.Pre]), Extra: js,
				})
			}

			continue
		}

		res.Outcomes[cc.Level+"/"+detail]++

		if res.Sample == nil {
			res.Sample = map[string]interface{}{"config_ttl": cs.Cfg.String(), "context_ttl": cs.Ctx.String(), "rand": cs.Rand, "result": detail}
		}
	}

	res.MaxDepth = 5

	return res
}

func init() {
	Register(&Prop{
		ID: "C10", Title: "Every entry's expiry lies within the documented TTL bounds",
		Cells: c10Cells, Run: c10Run,
		Rule: "complete grid |TTL| in {1ns,1us,1s,5m,24h,10y,...} x sign x level {config, context, both, unlimited, unlimited+context} x context composition {WithTTL alone, WithSkipRead outside / inside it, derived WithValue+WithCancel context, nested WithTTL scopes (inner shadows outer, also with the default TTL), zero-valued holder updated in place} x key history {fresh key, key already written with a context TTL of +7h / -7h, key written and expired by ExpireAll} x ExpirationJitter {-1, default, 0.01, 0.5, 1} " +
			"x rand.Float64 answer grid incl. both extremes x 3 backends; per case: Write at exact virtual instant t, Walk for ExpireAt, bounds check in exact rational arithmetic, " +
			"read 1ns before and 1ns after the expiry instant, ExpiredAt == ExpireAt",
		Assumptions: []string{
			"Trait.TTL is affine and monotone in the rand answer, so the two extreme answers bound every value rand.Float64 can return; interior points guard the argument",
			"slack of 1ns + |T|*2^-50 on the bounds for the implementation's float64 arithmetic",
			"domain: t+T(1+J/2) representable as int64 Unix nanoseconds (before the year 2262), i.e. |T| <= 150 years from the virtual epoch 2030; beyond that neither time.Duration nor the stored expiry can express the instant",
			"the expiry instant itself is unconstrained, as in the statement",
		},
	})
}
