package harness

import (
	"context"
	"encoding/json"
	"fmt"
	"strings"
	"time"

	"github.com/bool64/cache"

	"verif/vclock"
	"verif/vsched"
)

// C06 — TTL and context travel through Failover as documented (DESIGN §C06).

type c06Cell struct {
	Front  int    `json:"front"`
	Path   string `json:"path"`            // cold | syncS | bgS | waiter | skipF
	Caller string `json:"caller"`          // none | 0 | 10s | 1h | -1s
	Cancel string `json:"cancel"`          // never | before | after | deadline
	Same   bool   `json:"same,omitempty"`  // ObserveMutability on and the builder returns a value equal to the stale one
	Chain  bool   `json:"chain,omitempty"` // the builder's WithTTL calls are nested (each on the context returned by the previous one)
}

func (c c06Cell) id() string { js, _ := json.Marshal(c); return string(js) }

func c06Cells(tier string) []Cell {
	var cells []Cell

	for front := 0; front < 3; front++ {
		for _, path := range []string{"cold", "syncS", "bgS", "waiter", "skipF"} {
			for _, caller := range []string{"none", "0", "10s", "1h", "-1s"} {
				for _, cancel := range []string{"never", "before", "after", "deadline"} {
					cells = append(cells, Cell{ID: c06Cell{Front: front, Path: path, Caller: caller, Cancel: cancel}.id()})

					if (path == "syncS" || path == "bgS") && cancel == "never" {
						cells = append(cells, Cell{ID: c06Cell{Front: front, Path: path, Caller: caller, Cancel: cancel, Same: true}.id()})
					}
				}
			}
		}

		// a forced refresh (SkipRead) arriving while the key is being updated: whatever it is served was built, never
		// the old cached value (SyncRead on: the read inside the critical section must honour SkipRead too)
		for _, path := range []string{"skipWbg", "skipWsu", "skipWbgSR", "skipWsuSR"} {
			cells = append(cells, Cell{ID: c06Cell{Front: front, Path: path, Caller: "none", Cancel: "never"}.id()})
		}

		// nested builder scopes: WithTTL(ctx, x, false) opens a private scope, what happens inside it stays there
		for _, path := range []string{"cold", "bgS"} {
			for _, caller := range []string{"none", "0", "10s", "1h", "-1s"} {
				cells = append(cells, Cell{ID: c06Cell{Front: front, Path: path, Caller: caller, Cancel: "never", Chain: true}.id()})
			}
		}

		// SkipRead on every other entry state, with and without a cached failure for the key (appended after the
		// grid so that the indices of the older cells stay what they were)
		for _, path := range []string{"skipA", "skipS", "skipT", "skipAE", "skipSE", "skipFE"} {
			for _, caller := range []string{"none", "0", "10s", "1h", "-1s"} {
				cells = append(cells, Cell{ID: c06Cell{Front: front, Path: path, Caller: caller, Cancel: "never"}.id()})
			}
		}

		// a background build whose builder asks for another stale key, with its own or a derived (deadlined) context
		for _, path := range []string{"nested", "nestedDerive"} {
			cells = append(cells, Cell{ID: c06Cell{Front: front, Path: path, Caller: "none", Cancel: "never"}.id()})
		}

		// a backend that lowers the TTL of one key's writes through the context it is handed
		cells = append(cells, Cell{ID: c06Cell{Front: front, Path: "capBg", Caller: "none", Cancel: "never"}.id()})

		// the backend Failover creates for itself, configured with a TimeToLive shorter than UpdateTTL
		if front != 1 {
			cells = append(cells, Cell{ID: c06Cell{Front: front, Path: "defaultBackend", Caller: "none", Cancel: "never"}.id()})
		}

		// builds that fail
		for _, path := range []string{"failA", "failSu", "failBg"} {
			for _, caller := range []string{"none", "0", "10s", "1h", "-1s"} {
				cells = append(cells, Cell{ID: c06Cell{Front: front, Path: path, Caller: caller, Cancel: "never"}.id()})
			}
		}
	}

	return cells
}

var c06Opts = []ttlCall{
	{0, true}, {0, false}, {5 * time.Second, true}, {5 * time.Second, false},
	{2 * time.Hour, true}, {2 * time.Hour, false}, {-time.Second, true}, {-time.Second, false},
}

func c06Behaviours(tier string) [][]ttlCall {
	res := [][]ttlCall{nil}

	for _, a := range c06Opts {
		res = append(res, []ttlCall{a})
	}

	for _, a := range c06Opts {
		for _, b := range c06Opts {
			res = append(res, []ttlCall{a, b})
		}
	}

	// thorough: triples, appended so that indices of the shorter behaviours stay the same in both tiers
	if tier == "thorough" {
		for _, a := range c06Opts {
			for _, b := range c06Opts {
				for _, c := range c06Opts {
					res = append(res, []ttlCall{a, b, c})
				}
			}
		}
	}

	return res
}

func c06CallerTTL(s string) (time.Duration, bool) {
	switch s {
	case "0":
		return 0, true
	case "10s":
		return 10 * time.Second, true
	case "1h":
		return time.Hour, true
	case "-1s":
		return -time.Second, true
	}

	return 0, false
}

// c06Want is the documented final TTL: the caller's value lowered to the smallest non-zero value
// communicated with updateExisting=true (only when the caller's context carries a TTL cell).
func c06Want(caller time.Duration, hasCell bool, calls []ttlCall) time.Duration {
	if !hasCell {
		return 0
	}

	cur := caller

	for _, c := range calls {
		if !c.Upd || c.TTL == 0 {
			continue
		}

		if cur == 0 || c.TTL < cur {
			cur = c.TTL
		}
	}

	return cur
}

// c06WantChain is c06Want for nested calls: a call with updateExisting=false (or one without a cell to update)
// opens a private scope, and everything after it happens inside that scope.
func c06WantChain(caller time.Duration, hasCell bool, calls []ttlCall) time.Duration {
	if !hasCell {
		return 0
	}

	cur := caller

	for _, c := range calls {
		if !c.Upd {
			break
		}

		if c.TTL != 0 && (cur == 0 || c.TTL < cur) {
			cur = c.TTL
		}
	}

	return cur
}

// c06Nested: the builder of key 0 (a background update) asks the same front-end for key 1 - with its own context, or with
// one it derived from it under a deadline and cancels afterwards. Key 1 is stale too, so its update runs in the
// background as well: neither build is cancelled or deadlined by whoever caused it, both see the caller's values.
func c06Nested(cc c06Cell, env *Env) CellResult {
	tag := "nested"
	if cc.Path == "nestedDerive" {
		tag = "nested-derive"
	}

	cfg := FCfg{Front: cc.Front, MS: true, FailC: "00", Script: "o", Init: "SS", Tags: []string{tag},
		Threads: [][]GOp{{{Key: 0}}}}
	front := frontNames[cc.Front]

	return exploreF(cfg, env, vsched.Options{PreemptionBound: -1, EnvBound: 0, HBCache: true, Deadline: env.Deadline}, nil, func(h *fh, r *vsched.Result) []Violation {
		var vs []Violation

		bad := func(kind, detail string) {
			vs = append(vs, Violation{Signature: fmt.Sprintf("C06 %s %s path=%s", front, kind, cc.Path), Detail: detail})
		}

		if r.Deadlock || r.Panic != nil {
			bad("fatal", fmt.Sprintf("deadlock=%v panic=%v", r.Deadlock, r.Panic))
			return vs
		}

		if h.nbuild[0] != 1 || h.nbuild[1] != 1 {
			bad("nested-builds", fmt.Sprintf("builds per key %v, want one each", h.nbuild))
		}

		for _, e := range h.log {
			if e.Kind != "build-start" && e.Kind != "build-end" {
				continue
			}

			if e.Kind == "build-start" && e.Ctx.Planted != "planted" {
				bad("ctx-values", fmt.Sprintf("builder of key %d does not see the caller's context value (got %v)", e.Key, e.Ctx.Planted))
			}

			if e.Ctx.Err != nil || (e.Kind == "build-start" && (!e.Ctx.DoneNil || e.Ctx.Deadline)) {
				bad("bg-ctx", fmt.Sprintf("background build of key %d (%s): Err=%v Done==nil:%v deadline:%v; want detached from whoever caused it", e.Key, e.Kind, e.Ctx.Err, e.Ctx.DoneNil, e.Ctx.Deadline))
			}
		}

		return vs
	})
}

// c06Cap: the backend lowers the TTL of one key's writes the documented way (WithTTL(ctx, 1s, true) on the context it is
// handed). That is its business with THAT write: the stale re-store of another key still carries UpdateTTL, and the
// built values their callers' TTL.
func c06Cap(cc c06Cell, env *Env) CellResult {
	cfg := FCfg{Front: cc.Front, MS: true, FailC: "00", Script: "o", Init: "SS", Tags: []string{"capkey0"},
		Threads: [][]GOp{{{Key: 0}, {Key: 1}, {Key: 0}, {Key: 1}}}}
	front := frontNames[cc.Front]

	return exploreF(cfg, env, vsched.Options{PreemptionBound: 2, EnvBound: 0, HBCache: true, Deadline: env.Deadline}, nil, func(h *fh, r *vsched.Result) []Violation {
		var vs []Violation

		bad := func(kind, detail string) {
			vs = append(vs, Violation{Signature: fmt.Sprintf("C06 %s %s path=%s", front, kind, cc.Path), Detail: detail})
		}

		if r.Deadlock || r.Panic != nil {
			bad("fatal", fmt.Sprintf("deadlock=%v panic=%v", r.Deadlock, r.Panic))
			return vs
		}

		for _, e := range h.log {
			if e.Kind != "write" {
				continue
			}

			switch {
			case e.Tok.O == "pre" && e.TTL != updateTTL:
				bad("refresh-ttl", fmt.Sprintf("stale value of key %d re-stored with TTL %v, want UpdateTTL %v (the backend lowered the TTL of an earlier write of key 0 on the context it was handed)", e.Key, e.TTL, updateTTL))
			case e.Tok.O == "b" && e.TTL != 0:
				bad("final-ttl", fmt.Sprintf("built value of key %d stored with context TTL %v, the caller asked for none", e.Key, e.TTL))
			}
		}

		return vs
	})
}

// c06DefaultBackend: a Failover on the backend it creates itself (BackendConfig.TimeToLive 10s, shorter than
// UpdateTTL). Black box: the stale copy re-stored for a failing update is served, without building, for UpdateTTL
// (1m) - not for the backend's TimeToLive - and is stale again after that.
func c06DefaultBackend(cc c06Cell, env *Env) CellResult {
	res := CellResult{Exhaustive: true, Outcomes: map[string]int{}}
	front := []string{"Failover (default backend)", "", "FailoverOf (default backend)"}[cc.Front]

	var (
		builds int
		got    []string
	)

	body := func() {
		vclock.Reset()

		builds, got = 0, nil
		fail := false
		ctx := context.Background()
		bcfg := cache.Config{TimeToLive: 10 * time.Second, ExpirationJitter: -1}

		var get func() (int, error)

		vsched.Construct(func() {
			if cc.Front == 0 {
				f := cache.NewFailover(cache.FailoverConfig{Name: "d", BackendConfig: bcfg}.Use)
				get = func() (int, error) {
					v, err := f.Get(ctx, []byte("k"), func(ctx context.Context) (interface{}, error) {
						builds++
						if fail {
							return nil, errInjected
						}

						return builds, nil
					})

					n, _ := v.(int)

					return n, err
				}
			} else {
				f := cache.NewFailoverOf[int](cache.FailoverConfigOf[int]{Name: "d", BackendConfig: bcfg}.Use)
				get = func() (int, error) {
					return f.Get(ctx, []byte("k"), func(ctx context.Context) (int, error) {
						builds++
						if fail {
							return 0, errInjected
						}

						return builds, nil
					})
				}
			}
		})

		step := func(adv time.Duration, failing bool) {
			vclock.Advance(adv)

			fail = failing
			v, err := get()
			vsched.Join()

			got = append(got, fmt.Sprintf("(%d,%v) builds=%d", v, err, builds))
		}

		step(0, false)              // built: 1
		step(11*time.Second, true)  // stale 1 served, background update fails, stale copy re-stored for UpdateTTL
		step(30*time.Second, false) // failure forgotten; the re-stored copy is still fresh: 1, no build
		step(40*time.Second, false) // UpdateTTL is over: stale 1 served, background build
	}

	want := []string{"(1,<nil>) builds=1", "(1,<nil>) builds=2", "(1,<nil>) builds=2", "(1,<nil>) builds=3"}
	seen := map[string]bool{}

	check := func(r *vsched.Result) []Violation {
		if r.Deadlock || r.Panic != nil {
			return []Violation{{Signature: fmt.Sprintf("C06 %s fatal path=%s", front, cc.Path), Detail: fmt.Sprintf("deadlock=%v panic=%v", r.Deadlock, r.Panic)}}
		}

		if fmt.Sprint(got) != fmt.Sprint(want) {
			return []Violation{{Signature: fmt.Sprintf("C06 %s refresh-ttl path=%s", front, cc.Path),
				Detail: fmt.Sprintf("Get; +11s Get(failing update); +30s Get; +40s Get returned %v, want %v: the stale copy re-stored for the failing update is to be served for UpdateTTL (1m), whatever the backend's TimeToLive (10s)", got, want)}}
		}

		return nil
	}

	if env.Replay != nil {
		res.Violations = check(vsched.Replay(env.Replay.Choices, body))
		return res
	}

	st := vsched.Explore(vsched.Options{PreemptionBound: 2, EnvBound: 0, HBCache: true, Deadline: env.Deadline}, body, func(r *vsched.Result) bool {
		for _, v := range check(r) {
			if !seen[v.Signature] {
				seen[v.Signature] = true
				v.Choices = r.Choices()
				res.Violations = append(res.Violations, v)
			}
		}

		res.Outcomes[fmt.Sprint(got)]++

		return true
	})

	res.Execs, res.States, res.Transitions = st.Execs, st.HBStates, st.Transitions
	if !st.Exhaustive {
		res.Exhaustive, res.CapHit = false, st.CapHit
	}

	return res
}

// c06SkipWaiter: a plain Get and a SkipRead Get on one stale key, all schedules: the SkipRead Get returns a built
// value (its own build or the one it waited for), never the stale one.
func c06SkipWaiter(cc c06Cell, env *Env) CellResult {
	cfg := FCfg{Front: cc.Front, MS: true, FailC: "0", Script: "o", Init: "S",
		SU: strings.Contains(cc.Path, "su"), SR: strings.HasSuffix(cc.Path, "SR"),
		Threads: [][]GOp{{{Key: 0}}, {{Key: 0, Skip: true}}}}
	front := frontNames[cc.Front]

	return exploreF(cfg, env, vsched.Options{PreemptionBound: -1, EnvBound: 0, HBCache: true, Deadline: env.Deadline}, nil, func(h *fh, r *vsched.Result) []Violation {
		var vs []Violation

		for _, e := range h.log {
			if e.Kind == "get-end" && e.Name == "skip" && (e.Err != nil || e.Nil || e.Tok.O != "b") {
				vs = append(vs, Violation{Signature: fmt.Sprintf("C06 %s skipread-served-cached path=%s", front, cc.Path),
					Detail: fmt.Sprintf("a Get under WithSkipRead returned (%v nil=%v, %v): a forced refresh is answered with a value that was built, not with the cached one", e.Tok, e.Nil, e.Err)})
			}
		}

		return vs
	})
}

func c06Run(c Cell, env *Env) CellResult {
	var cc c06Cell
	_ = json.Unmarshal([]byte(c.ID), &cc)

	if strings.HasPrefix(cc.Path, "nested") {
		return c06Nested(cc, env)
	}

	if cc.Path == "capBg" {
		return c06Cap(cc, env)
	}

	if cc.Path == "defaultBackend" {
		return c06DefaultBackend(cc, env)
	}

	if strings.HasPrefix(cc.Path, "skipW") {
		return c06SkipWaiter(cc, env)
	}

	res := CellResult{Exhaustive: true, Outcomes: map[string]int{}}
	callerTTL, hasCell := c06CallerTTL(cc.Caller)
	front := frontNames[cc.Front]

	op := GOp{Key: 0}
	if hasCell {
		op.TTL = int(callerTTL / time.Second)
		op.TTL0 = callerTTL == 0
	}

	switch cc.Cancel {
	case "before":
		op.CBef = true
	case "after":
		op.Cancel = true
	case "deadline":
		op.DL = true
	}

	cfg := FCfg{Front: cc.Front, MS: true, FailC: "0", Script: "o"}
	if cc.Same {
		cfg.Script, cfg.ObsMut = "s", true
	}

	switch cc.Path {
	case "cold":
		cfg.Init = "A"
		cfg.Threads = [][]GOp{{op}}
	case "syncS":
		cfg.Init, cfg.SU = "S", true
		cfg.Threads = [][]GOp{{op}}
	case "bgS":
		cfg.Init = "S"
		cfg.Threads = [][]GOp{{op}}
	case "waiter":
		cfg.Init = "T"
		w := GOp{Key: 0, TTL: 7}
		cfg.Threads = [][]GOp{{op}, {w}}
	case "failA", "failSu", "failBg":
		// the build FAILS: what the builder communicated is applied as documented, nothing else touches the caller's context
		cfg.Script = "f"
		cfg.Init = "A"

		if cc.Path != "failA" {
			cfg.Init = "S"
			cfg.SU = cc.Path == "failSu"
		}

		cfg.Threads = [][]GOp{{op}}
	case "skipF", "skipA", "skipS", "skipT", "skipAE", "skipSE", "skipFE":
		cfg.Init = cc.Path[4:5]
		if strings.HasSuffix(cc.Path[5:], "E") {
			cfg.FailC = "1" // a build of the key failed a moment ago
		}

		op.Skip = true
		cfg.Threads = [][]GOp{{op}}
	}

	behaviours := c06Behaviours(env.Tier)
	if env.Replay != nil {
		var idx int
		_ = json.Unmarshal(env.Replay.Extra, &idx)
		behaviours = behaviours[idx : idx+1]
	}

	seen := map[string]bool{}

	for bi, calls := range behaviours {
		calls := calls
		want := c06Want(callerTTL, hasCell, calls)
		if cc.Chain {
			want = c06WantChain(callerTTL, hasCell, calls)
		}

		var h *fh

		body := func() {
			h = newFH(cfg)
			h.ttlCalls = calls
			h.ttlChain = cc.Chain
			h.body()
		}

		check := func(r *vsched.Result) []Violation {
			var vs []Violation

			bad := func(kind, detail string) {
				vs = append(vs, Violation{Signature: fmt.Sprintf("C06 %s %s path=%s", front, kind, cc.Path),
					Detail: fmt.Sprintf("%s\n  caller TTL %s, builder calls %v (nested: %v), cancel %s", detail, cc.Caller, calls, cc.Chain, cc.Cancel)})
			}

			if r.Deadlock || r.Panic != nil {
				bad("fatal", fmt.Sprintf("deadlock=%v panic=%v", r.Deadlock, r.Panic))
				return vs
			}

			if strings.HasPrefix(cc.Path, "fail") {
				if h.nbuild[0] != 1 {
					bad("fail-build-count", fmt.Sprintf("builder invoked %d times, want 1", h.nbuild[0]))
				}

				for _, e := range h.log {
					if e.Kind == "write" && e.Tok.O == "b" {
						bad("fail-stored", fmt.Sprintf("a failed build stored %v", e.Tok))
					}

					if e.Kind == "write" && e.Tok.O != "b" && e.TTL != updateTTL {
						bad("refresh-ttl", fmt.Sprintf("stale value re-stored with TTL %v, want UpdateTTL %v", e.TTL, updateTTL))
					}
				}

				for _, ctx := range h.ctxs {
					if got := cache.TTL(ctx); got != want {
						bad("caller-cell-after-failure", fmt.Sprintf("caller's context TTL after a Get whose build failed is %v, documented %v (only the builder's updateExisting=true calls reach it)", got, want))
					}
				}

				return vs
			}

			var finalW, refreshW []FEv

			stored := map[Tok]bool{}

			for _, e := range h.log {
				if e.Kind == "write" {
					// the first store of a built token is the final store of its build; any later store of the
					// same token (and every store of the preloaded token) is a stale refresh
					if e.Tok.O == "b" && !stored[e.Tok] {
						stored[e.Tok] = true
						finalW = append(finalW, e)
					} else {
						refreshW = append(refreshW, e)
					}
				}
			}

			// The TTL the builder saw at entry tells whose Get owns that build (the waiter thread asks for 7s).
			wantOf := func(n int) time.Duration {
				for _, e := range h.log {
					if e.Kind == "build-start" && e.N == n && cc.Path == "waiter" && e.Ctx.TTL == 7*time.Second {
						return c06Want(7*time.Second, true, calls)
					}
				}

				return want
			}

			if cc.Same {
				// the rebuilt token equals the stale one: the store that follows the build is recognised by position
				finalW = nil

				var buildEnd int = -1

				for _, e := range h.log {
					if e.Kind == "build-end" {
						buildEnd = e.Seq
					}
				}

				for _, e := range h.log {
					if e.Kind == "write" && buildEnd >= 0 && e.Seq > buildEnd {
						e.Tok.N = 0
						finalW = append(finalW, e)
					}
				}

				refreshW = nil

				for _, e := range h.log {
					if e.Kind == "write" && (buildEnd < 0 || e.Seq < buildEnd) {
						refreshW = append(refreshW, e)
					}
				}
			}

			if len(finalW) == 0 || (cc.Path != "waiter" && len(finalW) != 1) {
				bad("store-count", fmt.Sprintf("built value stored %d times, want once", len(finalW)))
				return vs
			}

			wantFinal := want

			for _, w := range finalW {
				wantFinal = wantOf(w.Tok.N)
				if w.TTL != wantFinal {
					bad("final-ttl", fmt.Sprintf("built value stored with context TTL %v, documented %v (smallest non-zero of the caller's TTL and the builder's updateExisting=true values)", w.TTL, wantFinal))
				}
			}

			for _, w := range refreshW {
				if w.TTL != updateTTL {
					bad("refresh-ttl", fmt.Sprintf("stale value re-stored with TTL %v, want UpdateTTL %v", w.TTL, updateTTL))
				}
			}

			// Stored expiry agrees with the TTL.
			_, _, at, found := h.front.Peek(h.keys[0])
			eff := wantFinal
			if eff == 0 {
				eff = backendTTL
			}

			if !found || !at.Equal(vclock.NowQuiet().Add(eff)) {
				bad("expiry", fmt.Sprintf("entry expires at now%+v (found=%v), want now+%v", at.Sub(vclock.NowQuiet()), found, eff))
			}

			// Caller cells at quiescence.
			for _, ctx := range h.ctxs {
				got := cache.TTL(ctx)

				if got == updateTTL {
					bad("caller-cell-update-ttl", "the caller's TTL cell holds UpdateTTL after Get")
				}

				if cc.Path != "waiter" && got != want {
					bad("caller-cell", fmt.Sprintf("caller's context TTL after Get is %v, documented %v", got, want))
				}
			}

			// Builder context.
			for _, e := range h.log {
				if e.Kind != "build-start" {
					continue
				}

				if e.Ctx.Planted != "planted" {
					bad("ctx-values", fmt.Sprintf("builder does not see the caller's context value (got %v)", e.Ctx.Planted))
				}

				if cc.Path == "bgS" {
					if e.Ctx.Err != nil || !e.Ctx.DoneNil || e.Ctx.Deadline {
						bad("bg-ctx", fmt.Sprintf("background build context: Err=%v Done==nil:%v deadline:%v; want detached", e.Ctx.Err, e.Ctx.DoneNil, e.Ctx.Deadline))
					}
				}
			}

			for _, e := range h.log {
				if e.Kind == "build-end" && cc.Path == "bgS" && e.Ctx.Err != nil {
					bad("bg-ctx", fmt.Sprintf("background build context cancelled by the caller: Err=%v", e.Ctx.Err))
				}
			}

			if strings.HasPrefix(cc.Path, "skip") {
				if h.nbuild[0] != 1 {
					bad("skipread-build", fmt.Sprintf("SkipRead (entry state %s, failure cached: %v) invoked the builder %d times, want 1", cc.Path[4:5], cfg.FailC == "1", h.nbuild[0]))
				}

				t, isNil, _, found := h.front.Peek(h.keys[0])
				if !found || isNil || t.O != "b" {
					bad("skipread-store", fmt.Sprintf("after a SkipRead rebuild the backend holds %v (found=%v), want the rebuilt value", t, found))
				}
			}

			return vs
		}

		if env.Replay != nil {
			r := vsched.Replay(env.Replay.Choices, body)
			res.Violations = append(res.Violations, check(r)...)

			fmt.Printf("events:\n%s", h.formatLog())

			return res
		}

		st := vsched.Explore(vsched.Options{PreemptionBound: -1, EnvBound: 0, HBCache: true, Deadline: env.Deadline}, body, func(r *vsched.Result) bool {
			for _, v := range check(r) {
				if !seen[v.Signature] {
					seen[v.Signature] = true
					v.Choices = r.Choices()
					v.Trace = h.formatLog()
					v.Extra, _ = json.Marshal(bi)
					res.Violations = append(res.Violations, v)
				}
			}

			res.Outcomes[fmt.Sprintf("%s final=%v", cc.Path, cache.TTL(h.ctxs[0]))]++

			if res.Sample == nil && len(calls) == 2 {
				res.Sample = map[string]interface{}{"path": cc.Path, "caller_ttl": cc.Caller, "builder_calls": fmt.Sprint(calls), "events": strings.Split(strings.TrimSpace(h.formatLog()), "\n")}
			}

			return true
		})

		res.Execs += st.Execs
		res.Transitions += st.Transitions
		res.States += st.HBStates

		if st.MaxDepth > res.MaxDepth {
			res.MaxDepth = st.MaxDepth
		}

		if !st.Exhaustive {
			res.Exhaustive = false
			res.CapHit = st.CapHit
		}
	}

	return res
}

func init() {
	Register(&Prop{
		ID: "C06", Title: "TTL and context travel through Failover as documented",
		Cells: c06Cells, Run: c06Run,
		Rule: "grid caller TTL {no cell, 0, 10s, 1h, -1s} x builder behaviour (every sequence of <=2 (quick: 73) / <=3 (thorough: 585) WithTTL(ctx,b,upd) calls, b in {0,5s,2h,-1s}, upd in {true,false}) x path {cold miss, sync update of a stale value, background update, waiter, cold miss and background update with NESTED builder scopes, SkipRead on a fresh entry; a SkipRead Get next to a plain Get on a stale key (sync / background update, SyncRead on / off); SkipRead on an absent / stale / too stale entry and with a failure cached for the key (uncancelled caller only); a build that FAILS on a cold miss / sync update / background update; a background build whose builder asks the front-end for another stale key with its own or a derived, deadlined context; a backend that lowers the TTL of one key's writes through the context it is handed; the self-created default backend with TimeToLive < UpdateTTL (black box)} " +
			"x caller context {never cancelled, cancelled before, cancelled after, carrying a deadline} x 3 front-ends; each case under the scheduler with all schedules (unbounded, HB cached); a recording backend wrapper notes TTL(ctx) of every Write, the builder notes Err/Done/Deadline/Value of its context",
		Assumptions: []string{
			"'smallest non-zero' is taken over signed durations (a negative TTL is smaller than any positive one), as the implementation's comparison does",
			"when the caller supplied no TTL cell the builder has no channel to Failover; only the backend default is required then",
		},
	})
}
