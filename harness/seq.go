package harness

import (
	"fmt"
	"strings"
	"time"

	"verif/vsched"
)

// SeqSpec describes an explicit-state search over operation sequences of a sequential component.
// Live objects cannot be cloned, so a state is the operation history reaching it: a successor is a
// fresh instance + replay of the history + one more operation. Every transition calls the real code
// and the reference model in lock-step.
type SeqSpec struct {
	Ops   []string                                   // alphabet, simplest first
	New   func() interface{}                         // fresh implementation + model (must reset the virtual clock)
	Apply func(s interface{}, op int) (string, bool) // applies op to both; returns the mismatch (ok=false) or an observation
	Canon func(s interface{}) string                 // canonical state key (property-relevant fields only)
	Depth int
}

// SeqResult is what the search covered.
type SeqResult struct {
	States      int
	Transitions int
	MaxDepth    int
	Exhaustive  bool
	CapHit      string
	Outcomes    map[string]int
	Failures    []SeqFailure
	Sample      []string
	ReplaySteps int
}

// SeqFailure is a failing sequence.
type SeqFailure struct {
	Seq    []int
	Names  []string
	Detail string
}

// RunSeq runs the BFS.
func RunSeq(sp SeqSpec, deadline time.Time, maxFail int) SeqResult {
	res := SeqResult{Exhaustive: true, Outcomes: map[string]int{}}

	build := func(hist []int) (interface{}, string, bool) {
		s, obs, ok, steps := runPath(sp, hist, nil)
		res.ReplaySteps += steps

		return s, obs, ok
	}

	init := sp.New()
	initKey := sp.Canon(init)
	seen := map[string]bool{initKey: true}
	frontier := [][]int{{}}
	canonOf := map[string]string{fmt.Sprint([]int{}): initKey} // history (as string) -> canonical model state, for the frontier only
	res.States = 1

	names := func(h []int) []string {
		var n []string
		for _, o := range h {
			n = append(n, sp.Ops[o])
		}

		return n
	}

	failed := map[string]bool{}

	for depth := 0; depth < sp.Depth && len(frontier) > 0; depth++ {
		var next [][]int

		nextCanon := map[string]string{}

		for fi, hist := range frontier {
			if fi%64 == 0 && time.Now().After(deadline) {
				res.Exhaustive = false
				res.CapHit = fmt.Sprintf("deadline at depth %d", depth)

				return res
			}

			for op := range sp.Ops {
				h2 := append(append(make([]int, 0, len(hist)+1), hist...), op)
				s, obs, ok := build(h2)
				res.Transitions++

				if len(h2) > res.MaxDepth {
					res.MaxDepth = len(h2)
				}

				if !ok {
					// classify by last op + message so that one defect is reported once per cell
					sig := sp.Ops[op] + "|" + obs
					if !failed[sig] && len(res.Failures) < maxFail {
						failed[sig] = true
						res.Failures = append(res.Failures, SeqFailure{Seq: h2, Names: names(h2), Detail: obs})
					}

					continue // do not expand states reached through a failing transition
				}

				res.Outcomes[opClass(sp.Ops[op])+" -> "+obs]++

				if res.Sample == nil && len(h2) == sp.Depth {
					res.Sample = names(h2)
				}

				// Dedup key: the canonical model state - plus, when the operation left the model state unchanged, the
				// class of that operation. Equal model states are merged only on the argument that they have equal
				// futures; an operation that is a no-op for the model may still have changed hidden implementation state
				// (a lock left held, a private timestamp), so one representative per (state, last no-op class) is kept.
				k := sp.Canon(s)
				ck := k

				if prev, ok := canonOf[fmt.Sprint(hist)]; ok && prev == k {
					k += "|after " + opClass(sp.Ops[op])
				}

				if !seen[k] {
					seen[k] = true
					res.States++

					next = append(next, h2)
					nextCanon[fmt.Sprint(h2)] = ck
				}
			}
		}

		frontier = next
		canonOf = nextCanon
	}

	if res.Sample == nil && len(frontier) > 0 {
		res.Sample = names(frontier[len(frontier)-1])
	}

	return res
}

func opClass(name string) string {
	if i := strings.IndexAny(name, "( "); i > 0 {
		return name[:i]
	}

	return name
}

// runPath builds a fresh instance and applies hist to it. The whole path runs as one controlled thread under the
// scheduler, so that an operation that never returns (a lock an earlier call left held) is a detected deadlock
// and a failure of that operation, not a hang of the search.
func runPath(sp SeqSpec, hist []int, each func(i int, obs string)) (s interface{}, obs string, ok bool, steps int) {
	ok = true
	cur := -1

	r := vsched.Replay(nil, func() {
		s = sp.New()

		for i, op := range hist {
			cur = i
			obs, ok = sp.Apply(s, op)
			steps++

			if each != nil {
				each(i, obs)
			}

			if !ok {
				return
			}
		}
	})

	what := "constructor"
	if cur >= 0 {
		what = sp.Ops[hist[cur]]
	}

	switch {
	case r.Deadlock:
		return s, fmt.Sprintf("%s never returns (deadlock): %v", what, r.Blocked), false, steps
	case r.Panic != nil:
		return s, fmt.Sprintf("%s panicked: %v", what, r.Panic), false, steps
	case r.Horizon:
		return s, fmt.Sprintf("%s: step horizon reached", what), false, steps
	}

	return s, obs, ok, steps
}

// ReplaySeq applies a recorded sequence and returns the first mismatch.
func ReplaySeq(sp SeqSpec, seq []int, verbose bool) (string, bool) {
	_, obs, ok, _ := runPath(sp, seq, func(i int, obs string) {
		if verbose {
			fmt.Printf("  %2d %-28s -> %s\n", i, sp.Ops[seq[i]], obs)
		}
	})
	if !ok {
		return obs, false
	}

	return "", true
}
