// Package model of "orders": a type that shares package name and type name with the one next door.
package model

// User is one of two different types whose reflect.Type.String() is "model.User".
type User struct {
	ID   int
	Name string
}
