package harness

import (
	"bytes"
	"context"
	"encoding/json"
	"errors"
	"fmt"
	"sort"
	"strings"
	"time"

	"github.com/bool64/cache"

	"verif/vclock"
	"verif/vsched"
)

// C15 — label invalidation is complete, precise and loses nothing on failure (DESIGN §C15).

type c15Cell struct {
	Mode         string `json:"mode"`     // seq | conc
	Deleters     string `json:"deleters"` // SM | SY | SM+SY | SM+faulty | OF
	NKeys        int    `json:"nkeys"`
	Repeat       bool   `json:"repeat"`                 // every AddLabels call is issued twice
	Cumul        bool   `json:"cumul,omitempty"`        // labels are added with a growing list: AddLabels(k,l1); AddLabels(k,l1,l2); ...
	Collide      bool   `json:"collide,omitempty"`      // key 0 and key 1 have the same 64-bit hash
	LateCache    bool   `json:"latecache,omitempty"`    // the caches are registered with AddCache only AFTER the keys were labelled
	CancelledCtx bool   `json:"cancelledctx,omitempty"` // the first InvalidateByLabels call gets an already cancelled context
	Reverse      bool   `json:"reverse"`                // registration order reversed
	Names        int    `json:"names"`                  // cache names (2: keys alternate between names, no fault injection)
	Shard        int    `json:"shard"`                  // incidence structures are split over NShards cells
	NShards      int    `json:"nshards"`
	Prog         int    `json:"prog,omitempty"` // conc: program index
	Fail         int    `json:"fail,omitempty"` // conc: 1+index of the Delete call that fails during the concurrent phase (0 = none)
}

func (c c15Cell) id() string { js, _ := json.Marshal(c); return string(js) }

var c15Labels = []string{"A", "B", "C"}

func c15Cells(tier string) []Cell {
	var cells []Cell

	nkeys, nsh := 3, 2
	if tier == "thorough" {
		nkeys, nsh = 4, 16
	}

	for _, d := range []string{"SM", "SY", "SM+SY", "SM+faulty", "OF"} {
		for _, rep := range []bool{false, true} {
			for _, rev := range []bool{false, true} {
				for sh := 0; sh < nsh; sh++ {
					cells = append(cells, Cell{ID: c15Cell{Mode: "seq", Deleters: d, NKeys: nkeys, Repeat: rep, Reverse: rev, Names: 1, Shard: sh, NShards: nsh}.id()})
				}
			}
		}

		for sh := 0; sh < nsh; sh++ {
			cells = append(cells, Cell{ID: c15Cell{Mode: "seq", Deleters: d, NKeys: nkeys, Cumul: true, Names: 1, Shard: sh, NShards: nsh}.id()})
		}

		// the caller's context is already cancelled when it asks for the invalidation (the deleters here do not care)
		for sh := 0; sh < nsh; sh++ {
			cells = append(cells, Cell{ID: c15Cell{Mode: "seq", Deleters: d, NKeys: nkeys, CancelledCtx: true, Names: 1, Shard: sh, NShards: nsh}.id()})
		}

		// the application labels its keys before it registers the caches with the index
		for sh := 0; sh < nsh; sh++ {
			cells = append(cells, Cell{ID: c15Cell{Mode: "seq", Deleters: d, NKeys: nkeys, LateCache: true, Names: 1, Shard: sh, NShards: nsh}.id()})
		}

		// two of the keys collide in the 64-bit hash: the later write displaces the earlier entry in the hash-slot
		// backends; a Delete issued for the displaced key must not remove the other one
		for _, rev := range []bool{false, true} {
			for sh := 0; sh < nsh; sh++ {
				cells = append(cells, Cell{ID: c15Cell{Mode: "seq", Deleters: d, NKeys: nkeys, Reverse: rev, Collide: true, Names: 1, Shard: sh, NShards: nsh}.id()})
			}
		}

		cells = append(cells, Cell{ID: c15Cell{Mode: "seq", Deleters: d, NKeys: nkeys, Names: 2, Shard: 0, NShards: 1}.id()})
	}

	for p := range c15Progs {
		for _, d := range []string{"SM", "SY", "OF"} {
			for fail := 0; fail <= 2; fail++ {
				cells = append(cells, Cell{ID: c15Cell{Mode: "conc", Deleters: d, Prog: p, Fail: fail}.id()})
			}
		}
	}

	return cells
}

// faultyDeleter fails the Delete call whose global index equals *failAt.
type faultyDeleter struct {
	inner  cache.Deleter
	calls  *int
	failAt *int
}

var errInjected = errors.New("injected delete failure")

func (f faultyDeleter) Delete(ctx context.Context, key []byte) error {
	n := *f.calls
	*f.calls++

	if n == *f.failAt {
		return errInjected
	}

	return f.inner.Delete(ctx, key)
}

type c15Env struct {
	idx    *cache.InvalidationIndex
	caches map[string][]backend // name -> caches
	calls  int
	failAt int
	late   []func() // AddCache calls postponed until the keys have been labelled
}

func c15Name(i int) string { return fmt.Sprintf("name%d", i) }

func newC15(cc c15Cell) *c15Env {
	vclock.Reset()

	e := &c15Env{idx: cache.NewInvalidationIndex(), caches: map[string][]backend{}, failAt: -1}
	cfg := cache.Config{Name: "c15", ExpirationJitter: -1}

	for n := 0; n < cc.Names; n++ {
		name := c15Name(n)

		var kinds []string

		switch cc.Deleters {
		case "SM":
			kinds = []string{"ShardedMap"}
		case "SY":
			kinds = []string{"SyncMap"}
		case "OF":
			kinds = []string{"ShardedMapOf"}
		case "SM+SY":
			kinds = []string{"ShardedMap", "SyncMap"}
		case "SM+faulty":
			kinds = []string{"ShardedMap", "ShardedMap"}
		}

		for _, k := range kinds {
			b := newBackend(k, cfg)
			e.caches[name] = append(e.caches[name], b)

			var d cache.Deleter = deleterOf(b)
			// every deleter counts its calls so that a fault can be placed at every position
			reg := func() { e.idx.AddCache(name, faultyDeleter{inner: d, calls: &e.calls, failAt: &e.failAt}) }
			if cc.LateCache {
				e.late = append(e.late, reg)
			} else {
				reg()
			}
		}
	}

	return e
}

type deleterFn func(ctx context.Context, key []byte) error

func (f deleterFn) Delete(ctx context.Context, key []byte) error { return f(ctx, key) }

func deleterOf(b backend) cache.Deleter { return deleterFn(b.Delete) }

// c15Collide makes key 0 and key 1 two different keys with the same xxhash64 (set for the duration of a cell).
var (
	c15Collide  bool
	c15CollKeys [][]byte
)

func c15Key(i int) []byte {
	if c15Collide && i < 2 {
		if c15CollKeys == nil {
			c15CollKeys = collidingKeys(bytes.Repeat([]byte("c15-collision-base-"), 4)[:64], 2)
		}

		return c15CollKeys[i]
	}

	return []byte(fmt.Sprintf("key-%d", i))
}

func (e *c15Env) present(name string, key []byte) []bool {
	var res []bool

	for _, b := range e.caches[name] {
		_, err := b.Read(context.Background(), key)
		res = append(res, err == nil)
	}

	return res
}

func (e *c15Env) total() int {
	n := 0

	for _, cs := range e.caches {
		for _, b := range cs {
			n += b.Len()
		}
	}

	return n
}

func allFalse(b []bool) bool {
	for _, x := range b {
		if x {
			return false
		}
	}

	return true
}

func allTrue(b []bool) bool {
	for _, x := range b {
		if !x {
			return false
		}
	}

	return true
}

// labelArgs enumerates every non-empty ordered selection of up to n labels, duplicates included.
func labelArgs(n int) [][]string {
	var res [][]string

	cur := [][]string{{}}
	for l := 0; l < n; l++ {
		var next [][]string

		for _, c := range cur {
			for _, lab := range c15Labels {
				next = append(next, append(append([]string{}, c...), lab))
			}
		}

		res = append(res, next...)
		cur = next
	}

	return res
}

type c15Case struct {
	Incidence int      `json:"incidence"` // key i carries label j iff bit (3*i+j) is set
	Args      []string `json:"args"`
	FailAt    int      `json:"fail_at"`
	Desc      bool     `json:"desc,omitempty"`  // map ranges iterate in descending key order
	Split     bool     `json:"split,omitempty"` // after the failed call the retry is made label by label, one call each
}

// c15One runs one case. It returns (kind, detail, number of Delete calls the fault-free run makes).
func c15One(cc c15Cell, cs c15Case) (string, string, int, int) {
	e := newC15(cc)
	ctx := context.Background()
	ops := 0

	nameOf := func(i int) string { return c15Name(i % cc.Names) }
	labelsOf := func(i int) []string {
		var ls []string

		for j, l := range c15Labels {
			if cs.Incidence>>(uint(3*i+j))&1 == 1 {
				ls = append(ls, l)
			}
		}

		return ls
	}

	order := make([]int, cc.NKeys)
	for i := range order {
		order[i] = i
		if cc.Reverse {
			order[i] = cc.NKeys - 1 - i
		}
	}

	// populate writes every key and registers its labels (in the cell's registration style)
	populate := func() {
		for _, i := range order {
			for _, b := range e.caches[nameOf(i)] {
				_ = b.Write(ctx, c15Key(i), i)
			}

			if ls := labelsOf(i); len(ls) > 0 {
				switch {
				case cc.Cumul:
					for j := 1; j <= len(ls); j++ {
						e.idx.AddLabels(nameOf(i), c15Key(i), ls[:j]...)
					}
				case cc.Reverse:
					// one label per call, in reverse
					for j := len(ls) - 1; j >= 0; j-- {
						e.idx.AddLabels(nameOf(i), c15Key(i), ls[j])
					}
				default:
					e.idx.AddLabels(nameOf(i), c15Key(i), ls...)
				}

				if cc.Repeat {
					e.idx.AddLabels(nameOf(i), c15Key(i), ls...)
				}
			}

			ops++
		}
	}

	populate()

	// labels may be registered before the cache they belong to is known to the index
	for _, reg := range e.late {
		reg()
	}

	e.late = nil

	// what is there before the call under test (with colliding keys a later write has displaced an earlier entry)
	presence := func() [][]bool {
		r := make([][]bool, cc.NKeys)
		for i := range r {
			r[i] = e.present(nameOf(i), c15Key(i))
		}

		return r
	}

	base := presence()

	selected := func(i int) bool {
		for _, l := range labelsOf(i) {
			for _, a := range cs.Args {
				if a == l {
					return true
				}
			}
		}

		return false
	}

	before := e.total()
	e.failAt = cs.FailAt
	e.calls = 0

	ncallsMade := 0

	call := func() (cnt int, err error, panicked interface{}) {
		defer func() {
			if r := recover(); r != nil {
				panicked = r
			}
		}()

		cctx := ctx
		if cc.CancelledCtx && ncallsMade == 0 {
			// the context is passed on to the deleters; whether it is still live is their business
			c, cancel := context.WithCancel(ctx)
			cancel()

			cctx = c
		}

		ncallsMade++

		cnt, err = e.idx.InvalidateByLabels(cctx, cs.Args...)

		return cnt, err, nil
	}

	cnt1, err1, p1 := call()
	ops++
	ncalls := e.calls

	if p1 != nil {
		return "panic", fmt.Sprintf("InvalidateByLabels panicked: %v", p1), ncalls, ops
	}

	check := func(label string) (string, string) {
		for i := 0; i < cc.NKeys; i++ {
			pr := e.present(nameOf(i), c15Key(i))

			if selected(i) && !allFalse(pr) {
				return "incomplete", fmt.Sprintf("%s: key %d carries a selected label but is still present in caches %v of its name", label, i, pr)
			}

			if !selected(i) && fmt.Sprint(pr) != fmt.Sprint(base[i]) {
				return "imprecise", fmt.Sprintf("%s: key %d carries none of the labels %v but its presence in the caches of its name changed from %v to %v", label, i, cs.Args, base[i], pr)
			}
		}

		return "", ""
	}

	if err1 == nil {
		if cs.FailAt >= 0 && cs.FailAt < ncalls {
			return "error-swallowed", fmt.Sprintf("Delete call #%d failed but InvalidateByLabels returned nil", cs.FailAt), ncalls, ops
		}

		if k, d := check("after a nil return"); k != "" {
			return k, d, ncalls, ops
		}

		if removed := before - e.total(); cnt1 != removed {
			return "count", fmt.Sprintf("returned count %d, entries actually removed %d", cnt1, removed), ncalls, ops
		}

		// second call: nothing left to remove
		cnt2, err2, p2 := call()
		if p2 != nil || err2 != nil || cnt2 != 0 {
			return "second-call", fmt.Sprintf("repeating the call returned (%d, %v, panic=%v), want (0, nil)", cnt2, err2, p2), ncalls, ops
		}

		// second round on the same index: the entries are built and labelled again, the same call must
		// invalidate them again (the index must not remember anything that prevents re-labelling)
		if cs.FailAt < 0 {
			populate()

			base = presence()
			before2 := e.total()
			cnt3, err3, p3 := call()

			if p3 != nil || err3 != nil {
				return "second-round", fmt.Sprintf("second round returned (%d, %v, panic=%v)", cnt3, err3, p3), ncalls, ops
			}

			if k, d := check("second round (entries re-written and re-labelled after a successful invalidation)"); k != "" {
				return k + "-second-round", d, ncalls, ops
			}

			if removed := before2 - e.total(); cnt3 != removed {
				return "count-second-round", fmt.Sprintf("second round returned count %d, entries actually removed %d", cnt3, removed), ncalls, ops
			}
		}

		return "", "ok", ncalls, ops
	}

	if !errors.Is(err1, errInjected) {
		return "foreign-error", fmt.Sprintf("returned error %v, the deleter failed with %v", err1, errInjected), ncalls, ops
	}

	// non-labelled keys untouched even on failure
	for i := 0; i < cc.NKeys; i++ {
		if !selected(i) && fmt.Sprint(e.present(nameOf(i), c15Key(i))) != fmt.Sprint(base[i]) {
			return "imprecise", fmt.Sprintf("after a failed call key %d (no selected label) is gone", i), ncalls, ops
		}
	}

	mid := e.total()
	if cnt1 != before-mid {
		return "count", fmt.Sprintf("failed call returned count %d, entries actually removed %d", cnt1, before-mid), ncalls, ops
	}

	// recovery: the fault is cleared, the same call must remove everything that is left
	e.failAt = -1

	if cs.Split {
		// ... and so must one call per label: every key is still indexed under EVERY label it was given
		done := map[string]bool{}

		for _, l := range cs.Args {
			if done[l] {
				continue
			}

			done[l] = true
			bef := e.total()
			cntL, errL := e.idx.InvalidateByLabels(ctx, l)
			ops++

			if errL != nil {
				return "retry-error", fmt.Sprintf("retry with label %s after recovery failed: %v", l, errL), ncalls, ops
			}

			if cntL != bef-e.total() {
				return "count-retry", fmt.Sprintf("retry with label %s returned count %d, entries actually removed %d", l, cntL, bef-e.total()), ncalls, ops
			}

			j := strings.Index("ABC", l)

			for i := 0; i < cc.NKeys; i++ {
				if cs.Incidence>>(uint(3*i+j))&1 == 1 && !allFalse(e.present(nameOf(i), c15Key(i))) {
					return "incomplete-after-split-retry", fmt.Sprintf("after a failed InvalidateByLabels(%s) and recovery, InvalidateByLabels(%s) returned nil but key %d, which carries that label, is still cached (it was dropped from the label's index)", strings.Join(cs.Args, ","), l, i), ncalls, ops
				}
			}
		}

		if k, d := check("after failure + retry label by label"); k != "" {
			return k + "-after-retry", d, ncalls, ops
		}

		return "", "ok-after-split-retry", ncalls, ops
	}

	cnt2, err2, p2 := call()
	ops++

	if p2 != nil {
		return "panic-retry", fmt.Sprintf("retry panicked: %v", p2), ncalls, ops
	}

	if err2 != nil {
		return "retry-error", fmt.Sprintf("retry after recovery failed: %v", err2), ncalls, ops
	}

	if k, d := check("after failure + retry"); k != "" {
		return k + "-after-retry", d + " (a labelled key that was not yet deleted was dropped from the index)", ncalls, ops
	}

	if cnt2 != mid-e.total() {
		return "count-retry", fmt.Sprintf("retry returned count %d, entries actually removed %d", cnt2, mid-e.total()), ncalls, ops
	}

	return "", "ok-after-retry", ncalls, ops
}

func c15Seq(cc c15Cell, env *Env) CellResult {
	res := CellResult{Exhaustive: true, Outcomes: map[string]int{}}

	c15Collide = cc.Collide
	defer func() { c15Collide = false }()

	nargs := 2
	if env.Thorough() {
		nargs = 3
	}

	args := labelArgs(nargs)
	nInc := 1 << uint(3*cc.NKeys)
	seen := map[string]bool{}

	run := func(cs c15Case) int {
		kind, detail, ncalls, ops := c15One(cc, cs)
		res.Execs++
		res.States++
		res.Transitions += ops

		if kind != "" {
			sig := fmt.Sprintf("C15 seq %s %s", cc.Deleters, kind)
			if !seen[sig] {
				seen[sig] = true
				js, _ := json.Marshal(cs)
				res.Violations = append(res.Violations, Violation{Signature: sig, Extra: js,
					Detail: fmt.Sprintf("%s\n  incidence (key->labels): %s; InvalidateByLabels(%s); failing Delete call #%d; repeat=%v reverse=%v cumulative=%v", detail, describeIncidence(cs.Incidence, cc.NKeys), strings.Join(cs.Args, ","), cs.FailAt, cc.Repeat, cc.Reverse, cc.Cumul)})
			}
		} else {
			res.Outcomes[fmt.Sprintf("%s/%d-labels", detail, len(cs.Args))]++

			if res.Sample == nil && cs.FailAt >= 0 {
				res.Sample = map[string]interface{}{"incidence": describeIncidence(cs.Incidence, cc.NKeys), "args": cs.Args, "failing_delete_call": cs.FailAt, "result": detail}
			}
		}

		return ncalls
	}

	if env.Replay != nil {
		var cs c15Case
		_ = json.Unmarshal(env.Replay.Extra, &cs)
		vsched.MapOrderDesc = cs.Desc
		run(cs)
		vsched.MapOrderDesc = false

		return res
	}

	for inc := cc.Shard; inc < nInc; inc += cc.NShards {
		if time.Now().After(env.Deadline) {
			res.Exhaustive, res.CapHit = false, "deadline"
			break
		}

		for _, a := range args {
			// Go leaves map iteration order unspecified; the instrumented build owns it, both directions are run
			for _, desc := range []bool{false, true} {
				vsched.MapOrderDesc = desc
				n := run(c15Case{Incidence: inc, Args: a, FailAt: -1, Desc: desc})

				for j := 0; j < n; j++ {
					run(c15Case{Incidence: inc, Args: a, FailAt: j, Desc: desc})

					if len(a) > 1 {
						run(c15Case{Incidence: inc, Args: a, FailAt: j, Desc: desc, Split: true})
					}
				}
			}

			vsched.MapOrderDesc = false
		}
	}

	res.MaxDepth = cc.NKeys + 3

	return res
}

func describeIncidence(inc, nkeys int) string {
	var parts []string

	for i := 0; i < nkeys; i++ {
		var ls []string

		for j, l := range c15Labels {
			if inc>>(uint(3*i+j))&1 == 1 {
				ls = append(ls, l)
			}
		}

		parts = append(parts, fmt.Sprintf("%d:{%s}", i, strings.Join(ls, "")))
	}

	return strings.Join(parts, " ")
}

// ---- concurrent part

type c15Op struct {
	Kind  string // add | cache | inval
	Name  string
	Key   int
	Label string
}

// c15Progs: threads of operations on a shared index. name1 is registered with labels up front; name0's
// cache is registered but has no labels yet when the threads start.
var c15Progs = [][][]c15Op{
	{{{Kind: "inval", Label: "A"}}, {{Kind: "add", Name: "name0", Key: 0, Label: "A"}}},
	{{{Kind: "inval", Label: "A"}}, {{Kind: "add", Name: "name1", Key: 2, Label: "A"}}},
	{{{Kind: "inval", Label: "A"}}, {{Kind: "inval", Label: "A"}}},
	{{{Kind: "inval", Label: "A"}}, {{Kind: "inval", Label: "B"}}, {{Kind: "add", Name: "name1", Key: 2, Label: "B"}}},
	{{{Kind: "inval", Label: "A"}}, {{Kind: "cache", Name: "name2"}, {Kind: "add", Name: "name2", Key: 3, Label: "A"}}},
	{{{Kind: "add", Name: "name0", Key: 0, Label: "A"}}, {{Kind: "add", Name: "name0", Key: 0, Label: "B"}}, {{Kind: "inval", Label: "A"}}},
	// two more keys get the label that is being invalidated (it already holds two keys of that cache)
	{{{Kind: "inval", Label: "A"}}, {{Kind: "add", Name: "name1", Key: 2, Label: "A"}, {Kind: "add", Name: "name1", Key: 3, Label: "A"}}},
}

func c15Conc(cc c15Cell, env *Env) CellResult {
	res := CellResult{Exhaustive: true, Outcomes: map[string]int{}}
	prog := c15Progs[cc.Prog]
	kind := "ShardedMap"

	switch cc.Deleters {
	case "SY":
		kind = "SyncMap"
	case "OF":
		kind = "ShardedMapOf"
	}

	var (
		idx    *cache.InvalidationIndex
		caches map[string]backend
		counts []int
		errs   []error
		calls  int
		failAt int
	)

	ctx := context.Background()
	del := func(b backend) cache.Deleter {
		return faultyDeleter{inner: deleterOf(b), calls: &calls, failAt: &failAt}
	}

	body := func() {
		vclock.Reset()

		idx = cache.NewInvalidationIndex()
		caches = map[string]backend{}
		counts, errs = nil, nil
		calls, failAt = 0, cc.Fail-1
		cfg := cache.Config{Name: "c15c", ExpirationJitter: -1}

		for _, n := range []string{"name0", "name1", "name2"} {
			caches[n] = newBackend(kind, cfg)

			for k := 0; k < 4; k++ {
				_ = caches[n].Write(ctx, c15Key(k), k)
			}
		}

		idx.AddCache("name0", del(caches["name0"]))
		idx.AddCache("name1", del(caches["name1"]))
		idx.AddLabels("name1", c15Key(0), "A", "B")
		idx.AddLabels("name1", c15Key(1), "A")

		for _, ops := range prog {
			ops := ops
			vsched.SpawnThread("idx", func() {
				for _, o := range ops {
					switch o.Kind {
					case "add":
						idx.AddLabels(o.Name, c15Key(o.Key), o.Label)
					case "cache":
						idx.AddCache(o.Name, del(caches[o.Name]))
					case "inval":
						n, err := idx.InvalidateByLabels(ctx, o.Label)
						counts = append(counts, n)
						errs = append(errs, err)
					}
				}
			})
		}

		vsched.Join()

		// Final sweep (the deleter has recovered): whatever was labelled, before or concurrently, must be removable now.
		failAt = -1

		for _, l := range c15Labels {
			n, err := idx.InvalidateByLabels(ctx, l)
			counts = append(counts, n)
			errs = append(errs, err)
		}
	}

	check := func(r *vsched.Result) []Violation {
		var vs []Violation

		bad := func(k, d string) {
			vs = append(vs, Violation{Signature: fmt.Sprintf("C15 conc %s %s", cc.Deleters, k), Detail: d})
		}

		if r.Deadlock || r.Panic != nil {
			bad("fatal", fmt.Sprintf("deadlock=%v panic=%v\n%s", r.Deadlock, r.Panic, r.PanicStack))
			return vs
		}

		for _, e := range errs {
			if e != nil && !errors.Is(e, errInjected) {
				bad("error", fmt.Sprintf("InvalidateByLabels failed: %v", e))
			}
		}

		// Every labelled key must be gone after the final sweep, every other key present.
		labelled := map[string]bool{"name1/0": true, "name1/1": true}

		for _, ops := range prog {
			for _, o := range ops {
				if o.Kind == "add" {
					labelled[fmt.Sprintf("%s/%d", o.Name, o.Key)] = true
				}
			}
		}

		total := 0

		for n, b := range caches {
			for k := 0; k < 4; k++ {
				_, err := b.Read(ctx, c15Key(k))
				id := fmt.Sprintf("%s/%d", n, k)

				if labelled[id] && err == nil {
					bad("lost-label", fmt.Sprintf("key %s was labelled (before or during the run) but survives a final InvalidateByLabels of every label: it was dropped from the index without being deleted", id))
				}

				if !labelled[id] && err != nil {
					bad("imprecise", fmt.Sprintf("key %s was never labelled but is gone", id))
				}

				if err != nil {
					total++
				}
			}
		}

		sum := 0
		for _, c := range counts {
			sum += c
		}

		if sum != total {
			bad("count", fmt.Sprintf("counts returned by all calls sum to %d, entries actually removed %d", sum, total))
		}

		return vs
	}

	if env.Replay != nil {
		r := vsched.Replay(env.Replay.Choices, body)
		res.Violations = check(r)

		fmt.Print(vsched.FormatTrace(r))

		return res
	}

	opt := vsched.Options{PreemptionBound: 2, EnvBound: 0, HBCache: true, Deadline: env.Deadline}
	if env.Thorough() {
		opt = vsched.Options{PreemptionBound: -1, EnvBound: 0, HBCache: true, MaxExecs: 500000, Deadline: env.Deadline}
	}

	seen := map[string]bool{}
	st := vsched.Explore(opt, body, func(r *vsched.Result) bool {
		for _, v := range check(r) {
			if !seen[v.Signature] {
				seen[v.Signature] = true
				v.Choices = r.Choices()
				mustReproduce(v.Signature, v.Choices, body, check)
				res.Violations = append(res.Violations, v)
			}
		}

		res.Outcomes[fmt.Sprintf("prog%d counts=%v", cc.Prog, counts)]++

		if res.Sample == nil {
			res.Sample = map[string]interface{}{"program": fmt.Sprint(prog), "schedule": r.Choices(), "counts": append([]int{}, counts...)}
		}

		return true
	})

	res.Execs, res.Transitions, res.States, res.MaxDepth = st.Execs, st.Transitions, st.HBStates, st.MaxDepth
	if !st.Exhaustive {
		res.Exhaustive, res.CapHit = false, st.CapHit
	}

	return res
}

func c15Run(c Cell, env *Env) CellResult {
	var cc c15Cell
	_ = json.Unmarshal([]byte(c.ID), &cc)

	if cc.Mode == "conc" {
		return c15Conc(cc, env)
	}

	return c15Seq(cc, env)
}

func init() {
	Register(&Prop{
		ID: "C15", Title: "Label invalidation is complete, precise and loses nothing on failure",
		Cells: c15Cells, Run: c15Run,
		Rule: "(seq) every key->label-subset incidence over 3 (quick) / 4 (thorough) keys x 3 labels, optionally with repeated labelling, reversed or cumulative (growing label list) registration, two keys with the same 64-bit hash, caches registered only after the keys were labelled, a first call under an already cancelled context, and a second round of re-writing, re-labelling and invalidating on the same index, x every ordered label argument list of length <=2 / <=3 (duplicates included) " +
			"x deleters {ShardedMap, SyncMap, ShardedMapOf, ShardedMap+SyncMap, two ShardedMaps} x a Delete failure injected at EVERY call position of the fault-free run (plus none), followed by a retry with the fault cleared; " +
			"(conc) 2-3 threads of AddLabels / AddCache / InvalidateByLabels on a shared index, all schedules within the bound, then a final sweep: every key labelled before or during the run must be removable, counts must add up",
		Assumptions: []string{
			"Go map iteration order (cache names, labels in the put-back loop) is owned by the instrumented build; every case runs with ascending and with descending order",
			"the runtime's concurrent-map-access detector cannot fire under a cooperative scheduler; unsynchronised access to the index is C16's subject (race detector)",
		},
	})
}

var _ = sort.Strings
