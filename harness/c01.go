package harness

import (
	"fmt"
	"os"
	"strconv"
	"strings"

	"verif/vsched"
)

// C01 — at most one build per key in flight (DESIGN §C01).

func boolBits(n, i int) bool { return n>>uint(i)&1 == 1 }

func c01Cells(tier string) []Cell {
	var cells []Cell

	scripts := []string{"o", "f", "of", "fo"}
	inits := []string{"A", "F", "S", "T"}

	for front := 0; front < 3; front++ {
		for cfgBits := 0; cfgBits < 32; cfgBits++ {
			if tier == "quick" {
				// 8 representative configurations: all SU x SR x FH with MS=1m, FT default; plus the two
				// MS/FT flips on the all-off and SR configurations.
				ms, ft := boolBits(cfgBits, 3), boolBits(cfgBits, 4)
				if !(ms && !ft) && !(cfgBits == 0 || cfgBits == 16 || cfgBits == 2|16) {
					continue
				}
			}

			for _, init := range inits {
				for _, sc := range scripts {
					if tier == "quick" && (sc == "fo" || (init == "F" && sc != "o")) {
						continue
					}

					c := FCfg{
						Front: front, SU: boolBits(cfgBits, 0), SR: boolBits(cfgBits, 1), FH: boolBits(cfgBits, 2),
						MS: boolBits(cfgBits, 3), FTNeg: boolBits(cfgBits, 4), Init: init, FailC: "0", Script: sc,
						Threads: [][]GOp{{{Key: 0}, {Key: 0}}, {{Key: 0}}},
						Tags:    []string{"stats", "log"},
					}

					if tier == "thorough" {
						// the two-thread program with ALL interleavings (unbounded, happens-before cached) ...
						u := c
						u.Tags = []string{"stats", "log", "unbounded"}
						cells = append(cells, Cell{ID: u.ID()})

						// ... and three threads on two keys sharing the key-lock map, preemption bound 2
						c.Init = init + "S"
						c.FailC = "00"
						c.Threads = [][]GOp{{{Key: 0}, {Key: 0}}, {{Key: 0}, {Key: 1}}, {{Key: 1}, {Key: 0}}}
						c.Callout = front == 0 && sc == "o"
					}

					cells = append(cells, Cell{ID: c.ID()})

					// A forced refresh (WithSkipRead) arriving while the key is being built must wait or build alone.
					if sc == "o" || sc == "f" {
						k := c
						k.Callout = false
						k.Threads = [][]GOp{{{Key: 0}, {Key: 0}}, {{Key: 0, Skip: true}}}
						cells = append(cells, Cell{ID: k.ID()})
					}

					// The caller of the Get that owns the build gives up (cancels its context) while its build is running:
					// the build is still in flight until the builder returns, whoever waits for it.
					if sc == "o" || sc == "f" {
						k := c
						k.Callout = false
						k.Threads = [][]GOp{{{Key: 0, CDur: true}, {Key: 0}}, {{Key: 0}}}
						cells = append(cells, Cell{ID: k.ID()})
					}

					// Two keys are being updated in the background one after the other, then a forced refresh of the second:
					// whatever the library shares between the two updates, the second key is still being built only once.
					if (sc == "o" || sc == "f") && init == "S" {
						r := c
						r.Init, r.FailC, r.Callout = "SS", "00", false
						r.Threads = [][]GOp{{{Key: 0}, {Key: 1}}, {{Key: 1, Skip: true}}}
						cells = append(cells, Cell{ID: r.ID()})
					}

					// The backend answers one of its calls with an unexpected error (a transport fault), at every position:
					// whatever a Get does then, it does not build next to a build that is in flight.
					if sc == "o" || sc == "f" {
						k := c
						k.Callout = false
						k.Threads = [][]GOp{{{Key: 0}, {Key: 0}}, {{Key: 0}}}
						k.Faults = true
						cells = append(cells, Cell{ID: k.ID()})
					}

					// A slow data source: every build takes longer than UpdateTTL. However long a build has been running, it is
					// still THE build of its key.
					if sc == "o" || sc == "f" {
						k := c
						k.Callout = false
						k.Threads = [][]GOp{{{Key: 0}, {Key: 0}}, {{Key: 0}}}
						k.Tags = []string{"stats", "log", "slow"}
						cells = append(cells, Cell{ID: k.ID()})
					}

					// A composite value: the builder of one key asks the same front-end for another key (with the context it was
					// handed) while that key is being built by somebody else.
					if sc == "o" || sc == "f" {
						for _, second := range []string{"A", "T", "S"} {
							r := c
							r.Init, r.FailC, r.Callout = init+second, "00", false
							r.Threads = [][]GOp{{{Key: 0}}, {{Key: 1}}, {{Key: 1}}}
							r.Tags = []string{"stats", "log", "nested"}
							cells = append(cells, Cell{ID: r.ID()})
						}
					}

					// The bench/failover.go usage pattern: one key buffer reused for the next Get while the
					// background build of the previous key may still be running, next to a plain Get of the second key.
					if sc == "o" || sc == "f" {
						r := c
						r.Init, r.FailC, r.Callout = init+"A", "00", false
						r.Threads = [][]GOp{{{Key: 0, Reuse: true}, {Key: 1, Reuse: true}}, {{Key: 1}}}
						cells = append(cells, Cell{ID: r.ID()})

						// ... and next to a forced refresh of the FIRST key, whose background build may still be running under a
						// lock that was registered when the buffer still held that key
						r.Threads = [][]GOp{{{Key: 0, Reuse: true}, {Key: 1, Reuse: true}}, {{Key: 0, Skip: true}}}
						cells = append(cells, Cell{ID: r.ID()})
					}
				}
			}
		}
	}

	return cells
}

func c01Run(c Cell, env *Env) CellResult {
	cfg := parseFCfg(c.ID)
	opt := vsched.Options{PreemptionBound: 2, EnvBound: 0, HBCache: true}

	if env.Thorough() {
		opt = vsched.Options{PreemptionBound: 2, EnvBound: 0, HBCache: true, MaxExecs: 2000000}

		for _, t := range cfg.Tags {
			if t == "unbounded" {
				opt.PreemptionBound = -1
			}
		}
	}

	if v := os.Getenv("VERIF_BOUND"); v != "" {
		b, _ := strconv.Atoi(v)
		opt.PreemptionBound = b
	}

	if cfg.Faults {
		opt.EnvBound = 1
	}

	return exploreF(cfg, env, opt, nil, func(h *fh, r *vsched.Result) []Violation {
		var vs []Violation

		for _, m := range h.viol {
			if !strings.HasPrefix(m, "overlap") {
				continue // provenance of results is C02's subject
			}

			vs = append(vs, Violation{Signature: fmt.Sprintf("C01 overlap front=%s", frontNames[cfg.Front]), Detail: m})
		}

		return vs
	})
}

func init() {
	Register(&Prop{
		ID: "C01", Title: "Failover never runs two builds for the same key at the same time",
		Cells: c01Cells, Run: c01Run,
		Rule: "cell = front-end x (SU,SR,FH,MS,FT) x entry state x builder script x program (plain, SkipRead Get, reused key buffer, context cancelled during the build, slow builds, one backend call failing at every position); per cell every schedule of the Get threads " +
			"and background builds up to the preemption bound is executed on the real Failover; an outcome is the tuple of Get results plus the number of builds",
		Assumptions: []string{
			"scheduling points are every sync/atomic/channel/clock operation of the instrumented package plus the in-flight point inside the harness builder; code between two points runs atomically",
			"janitor/items-count daemons are not started; their effect is irrelevant to key locks",
			"quick: 2 threads (2+1 Gets on one key) and the buffer-reuse program, preemption bound 2, 8 configurations; thorough: all 32 configurations, the 2-thread program with ALL interleavings (unbounded, happens-before cached), 3 threads x 2 Gets on 2 keys and the buffer-reuse program with preemption bound 2 (safety cap 2M executions per cell, reported if hit)",
		},
	})
}
