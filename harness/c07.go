package harness

import (
	"bytes"
	"context"
	"encoding/json"
	"errors"
	"fmt"
	"sort"
	"strings"
	"time"

	"github.com/bool64/cache"
	"github.com/cespare/xxhash/v2"

	"verif/ref"
	"verif/vclock"
	"verif/vsched"
)

// C07 — backends behave as a map with per-entry expiry (DESIGN §C07).

type bop struct {
	name   string
	kind   string // write read readskip delete expireall deleteall load store advance cleanup
	key    int
	val    int
	ttl    time.Duration
	adv    time.Duration
	nested bool // write: default TTL requested inside a scope that carries a per-call TTL
}

type bstate struct {
	b    backend
	m    *ref.ExpMap
	keys [][]byte
	cfg  cache.Config
	buf  []byte // the caller's one key buffer: every key argument is passed in it, it is overwritten after the call
}

// arg returns key i in the caller's reusable buffer (as a caller that builds its keys in one scratch buffer
// does); scribble overwrites the buffer once the call has returned.
func (s *bstate) arg(i int) []byte {
	if s.buf == nil {
		s.buf = make([]byte, 512)
	}

	return s.buf[:copy(s.buf, s.keys[i])]
}

func (s *bstate) scribble() {
	for i := range s.buf {
		s.buf[i] = 0xEE
	}
}

var c07Keys = [][]byte{
	[]byte(""),
	[]byte("a"),
	bytes.Repeat([]byte("0123456789"), 7),
	{0x00, 0xff},
}

var errWalkStop = errors.New("walk callback gives up")

// missingKeyNear returns a key no check ever writes that lives in the same shard as k.
func missingKeyNear(k []byte) []byte {
	want := xxhash.Sum64(k) % uint64(cache.VerifShards)

	for i := 0; ; i++ {
		p := []byte(fmt.Sprintf("never-written-%d", i))
		if xxhash.Sum64(p)%uint64(cache.VerifShards) == want {
			return p
		}
	}
}

func c07Alphabet(keys [][]byte, loadStore bool) []bop {
	var ops []bop

	kn := func(i int) string { return fmt.Sprintf("k%d", i) }

	for k := range keys {
		ops = append(ops, bop{name: "Read(" + kn(k) + ")", kind: "read", key: k})
	}

	for k := range keys {
		for _, v := range []int{1, 2} {
			ops = append(ops, bop{name: fmt.Sprintf("Write(%s,%d)", kn(k), v), kind: "write", key: k, val: v})
		}
	}

	for k := range keys {
		ops = append(ops, bop{name: "Delete(" + kn(k) + ")", kind: "delete", key: k})
	}

	ops = append(ops,
		bop{name: "Advance(11s)", kind: "advance", adv: 11 * time.Second},
		bop{name: "ExpireAll", kind: "expireall"},
		bop{name: "DeleteAll", kind: "deleteall"},
		bop{name: "Advance(6m)", kind: "advance", adv: 6 * time.Minute},
		bop{name: "Walk(callback fails at the first entry)", kind: "walkfail"},
		bop{name: "Write(k0,4,ttl=-100y)", kind: "write", key: 0, val: 4, ttl: -100 * 365 * 24 * time.Hour}, // expiry instant before 1970
		bop{name: "Advance(25h)", kind: "advance", adv: 25 * time.Hour},                                     // beyond DeleteExpiredAfter: no cycle runs, so expired entries stay retrievable
		bop{name: "Write(k0,3,ttl=default inside a -10s scope)", kind: "write", key: 0, val: 3, nested: true},
	)

	for k := range keys {
		ops = append(ops,
			bop{name: fmt.Sprintf("Write(%s,1,ttl=+10s)", kn(k)), kind: "write", key: k, val: 1, ttl: 10 * time.Second},
			bop{name: fmt.Sprintf("Write(%s,2,ttl=-10s)", kn(k)), kind: "write", key: k, val: 2, ttl: -10 * time.Second},
			bop{name: "ReadSkip(" + kn(k) + ")", kind: "readskip", key: k},
		)
	}

	if loadStore {
		for k := range keys {
			ops = append(ops,
				bop{name: "Load(" + kn(k) + ")", kind: "load", key: k},
				bop{name: fmt.Sprintf("Store(%s,2)", kn(k)), kind: "store", key: k, val: 2},
			)
		}
	}

	return ops
}

func timeOfE(e int64) time.Time { return time.Unix(e/1e9, e%1e9) }

// checkState compares Len and Walk with the model.
func (s *bstate) checkState() (string, bool) {
	if n := s.b.Len(); n != len(s.m.M) {
		return fmt.Sprintf("Len differs from model: Len()=%d, model has %d entries %q", n, len(s.m.M), s.m.Keys()), false
	}

	seen := map[string]int{}

	n, err := s.b.Walk(func(k []byte, v interface{}, at time.Time) error {
		seen[string(k)]++

		me, ok := s.m.M[string(k)]
		if !ok {
			return fmt.Errorf("Walk reports a key the model does not hold: %q", k)
		}

		if v != me.V {
			return fmt.Errorf("Walk reports a wrong value: %v for key %q, model has %v", v, k, me.V)
		}

		if !at.Equal(timeOfE(me.E)) {
			return fmt.Errorf("Walk reports a wrong ExpireAt: %v (unixnano %d) for key %q, model has %d", at, at.UnixNano(), k, me.E)
		}

		return nil
	})
	if err != nil {
		return err.Error(), false
	}

	if n != len(s.m.M) {
		return fmt.Sprintf("Walk count differs from model: %d, model has %d", n, len(s.m.M)), false
	}

	for k, c := range seen {
		if c != 1 {
			return fmt.Sprintf("Walk visited a key more than once: %q %d times", k, c), false
		}
	}

	if len(seen) != len(s.m.M) {
		return fmt.Sprintf("Walk key set differs from model: %d keys, model has %d", len(seen), len(s.m.M)), false
	}

	return "", true
}

func (s *bstate) compareRead(what string, v interface{}, err error, me ref.MEntry, st ref.Status, edge bool) (string, bool) {
	zero := interface{}(nil)
	if s.b.Kind() == "ShardedMapOf" {
		zero = 0
	}

	describe := func() string {
		if err != nil {
			if ev, at, ok := s.b.Expired(err); ok {
				return fmt.Sprintf("(%v, ErrExpired{value=%v, at=%d})", v, ev, at.UnixNano())
			}

			return fmt.Sprintf("(%v, %v)", v, err)
		}

		return fmt.Sprintf("(%v, nil)", v)
	}

	okHit := err == nil && v == me.V
	ev, at, isExp := s.b.Expired(err)
	okExp := err != nil && errors.Is(err, cache.ErrExpired) && isExp && ev == me.V && at.UnixNano() == me.E && v == zero
	okMiss := err != nil && errors.Is(err, cache.ErrNotFound) && !isExp && v == zero

	switch st {
	case ref.Hit:
		if okHit || (edge && okExp) {
			return "hit", true
		}
	case ref.Expired:
		if okExp || (edge && okHit) {
			return "expired", true
		}
	case ref.NotFound:
		if okMiss {
			return "miss", true
		}
	}

	return fmt.Sprintf("%s disagrees with model (%s): returned %s, model value %v, expiry %d", what, st, describe(), me.V, me.E), false
}

// apply runs one operation and the state comparison under the scheduler (one controlled thread), so that an
// operation that never returns - a lock left held by an earlier call - is a detected deadlock, not a hang.
func (s *bstate) apply(o bop) (msg string, ok bool) {
	if vsched.Active() {
		return s.applyRaw(o)
	}

	r := vsched.Replay(nil, func() { msg, ok = s.applyRaw(o) })

	switch {
	case r.Deadlock:
		return fmt.Sprintf("%s never returns (deadlock): %v", o.name, r.Blocked), false
	case r.Panic != nil:
		return fmt.Sprintf("%s panicked: %v", o.name, r.Panic), false
	}

	return msg, ok
}

func (s *bstate) applyRaw(o bop) (string, bool) {
	ctx := context.Background()
	now := vclock.NowQuiet()
	obs := "ok"

	var key []byte

	switch o.kind {
	case "write", "store", "read", "readskip", "load", "delete":
		key = s.arg(o.key)
	}

	switch o.kind {
	case "write", "store":
		if o.kind == "store" {
			s.b.Store(key, o.val)
			s.m.Write(string(s.keys[o.key]), o.val, 0, now)
		} else {
			wctx := ctx
			if o.ttl != 0 {
				wctx = cache.WithTTL(ctx, o.ttl, false)
			}

			if o.nested {
				// the inner scope asks for the default TTL again: the outer per-call TTL must not leak into it
				wctx = cache.WithTTL(cache.WithTTL(ctx, -10*time.Second, false), cache.DefaultTTL, false)
			}

			if err := s.b.Write(wctx, key, o.val); err != nil {
				return "Write failed: " + err.Error(), false
			}

			s.m.Write(string(s.keys[o.key]), o.val, o.ttl, now)
		}
	case "read", "readskip":
		rctx := ctx
		if o.kind == "readskip" {
			rctx = cache.WithSkipRead(ctx)
		}

		v, err := s.b.Read(rctx, key)
		me, st, edge := s.m.Read(string(s.keys[o.key]), now, o.kind == "readskip")

		var ok bool
		if obs, ok = s.compareRead("Read", v, err, me, st, edge); !ok {
			return obs, false
		}
	case "load":
		v, found := s.b.Load(key)
		me, st, edge := s.m.Read(string(s.keys[o.key]), now, false)

		want := st == ref.Hit
		if found != want && !edge {
			return fmt.Sprintf("Load disagrees with model (%s): returned ok=%v", st, found), false
		}

		if found && v != me.V {
			return fmt.Sprintf("Load returned a wrong value: %v, model has %v", v, me.V), false
		}

		obs = fmt.Sprint(found)
	case "delete":
		err := s.b.Delete(ctx, key)
		existed := s.m.Delete(string(s.keys[o.key]))

		switch {
		case existed && err != nil:
			return fmt.Sprintf("Delete of an existing key failed: %v", err), false
		case !existed && !errors.Is(err, cache.ErrNotFound):
			return fmt.Sprintf("Delete of a missing key did not return ErrNotFound: %v", err), false
		}

		obs = fmt.Sprint(existed)
	case "walkfail":
		// a caller's callback may give up: Walk hands the error back and leaves the cache usable
		var at []byte

		n, err := s.b.Walk(func(k []byte, v interface{}, _ time.Time) error {
			at = append([]byte(nil), k...)
			return errWalkStop
		})
		if len(s.m.M) > 0 && !errors.Is(err, errWalkStop) {
			return fmt.Sprintf("Walk with a failing callback returned (%d, %v), want the callback's error", n, err), false
		}

		if len(s.m.M) == 0 && (err != nil || n != 0) {
			return fmt.Sprintf("Walk of an empty cache returned (%d, %v)", n, err), false
		}

		// the part of the cache the walk was in when it stopped is still writable (the model state does not
		// change, so this is probed here and not left to later operations)
		if at != nil {
			if err := s.b.Delete(ctx, missingKeyNear(at)); !errors.Is(err, cache.ErrNotFound) {
				return fmt.Sprintf("Delete of a missing key after a Walk that stopped early returned %v, want ErrNotFound", err), false
			}
		}
	case "expireall":
		s.b.ExpireAll(ctx)
		s.m.ExpireAll(now)
	case "deleteall":
		s.b.DeleteAll(ctx)
		s.m.DeleteAll()
	case "advance":
		vclock.Advance(o.adv)
	case "cleanup":
		s.b.Cleanup()
		removed := s.m.Cleanup(now, s.cfg.DeleteExpiredAfter)
		obs = fmt.Sprintf("removed %d", len(removed))

		// the limit check comes after the expired-items check: what is left is what counts (EvictFraction 1
		// brings a count breach down to zero entries)
		if s.cfg.CountSoftLimit > 0 && s.cfg.EvictFraction == 1 && uint64(len(s.m.M)) > s.cfg.CountSoftLimit {
			s.m.DeleteAll()

			obs += " + evicted all"
		}
	}

	s.scribble()

	// Real time always moves between two calls; one tick keeps "now == expiry" edges rare and explicit.
	vclock.Advance(time.Nanosecond)

	if msg, ok := s.checkState(); !ok {
		return "after " + o.name + ": " + msg, false
	}

	return obs, true
}

type c07Cell struct {
	Backend string `json:"backend"`
	TTL     string `json:"ttl"` // "5m" | "unlimited"
	Keys    string `json:"keys"`
	Log     int    `json:"log,omitempty"` // allshards: logger shape, see c07Logger
	First   int    `json:"first"`         // first operation (shards the search); -1 = none
}

func (c c07Cell) id() string { js, _ := json.Marshal(c); return string(js) }

func c07Cells(tier string) []Cell {
	var cells []Cell

	for _, b := range backendKinds {
		for _, ttl := range []string{"5m", "unlimited"} {
			nops := len(c07Alphabet(c07Keys[:c07NKeys(tier)], b != "SyncMap"))
			for first := 0; first < nops; first++ {
				cells = append(cells, Cell{ID: c07Cell{Backend: b, TTL: ttl, Keys: "std", First: first}.id()})
			}
		}
	}

	// Long keys (300 bytes; two differ in the last byte only, one is a 160-byte prefix of them): the same alphabet,
	// sequences one operation shorter.
	for _, b := range backendKinds {
		for _, ttl := range []string{"5m", "unlimited"} {
			nops := len(c07Alphabet(c07LongKeys, b != "SyncMap"))
			for first := 0; first < nops; first++ {
				cells = append(cells, Cell{ID: c07Cell{Backend: b, TTL: ttl, Keys: "long", First: first}.id()})
			}
		}
	}

	// One key in EVERY shard (plus a second key in the first and in the last shard): loops over shards must
	// cover all of them.
	for _, b := range backendKinds {
		for _, ttl := range []string{"5m", "unlimited"} {
			cells = append(cells, Cell{ID: c07Cell{Backend: b, TTL: ttl, Keys: "allshards", First: -1}.id()})

			// ... once more with loggers of every shape attached (the batch operations log what they did)
			for lg := 1; lg <= 4; lg++ {
				cells = append(cells, Cell{ID: c07Cell{Backend: b, TTL: ttl, Keys: "allshards", First: -1, Log: lg}.id()})
			}
		}
	}

	return cells
}

// allShardKeys returns one key per shard index plus a second key for shard 0 and for the last shard.
func allShardKeys() [][]byte {
	n := cache.VerifShards
	byShard := make([][]byte, n)
	found := 0

	var extra [][]byte

	for i := 0; found < n || len(extra) < 2; i++ {
		k := []byte(fmt.Sprintf("shard-key-%05d", i))
		sh := int(xxhash.Sum64(k) % uint64(n))

		switch {
		case byShard[sh] == nil:
			byShard[sh] = k
			found++
		case (sh == 0 || sh == n-1) && len(extra) < 2 && (len(extra) == 0 || int(xxhash.Sum64(extra[0])%uint64(n)) != sh):
			extra = append(extra, k)
		}
	}

	return append(byShard, extra...)
}

// c07Logger: loggers with different optional capabilities (the library probes for Warn / Important / Debug).
func c07Logger(i int) cache.Logger {
	n := new(int)
	f := func(ctx context.Context, msg string, kv ...interface{}) { *n++ }

	switch i {
	case 1:
		return errOnlyLogger{n: n}
	case 2:
		return cache.NewLogger(f, nil, nil, f) // Error and Debug only
	case 3:
		return cache.NewLogger(f, nil, f, nil) // Error and Important only
	case 4:
		return cache.NewLogger(f, f, f, f)
	}

	return nil
}

// c07AllShards populates every shard and runs every sequence of <=3 batch / time operations, comparing with the
// model after each of them.
func c07AllShards(cc c07Cell, env *Env) CellResult {
	res := CellResult{Exhaustive: true, Outcomes: map[string]int{}}
	keys := allShardKeys()
	cfg := cache.Config{Name: "c07", ExpirationJitter: -1, TimeToLive: 5 * time.Minute, DeleteExpiredAfter: time.Minute}

	if cc.TTL == "unlimited" {
		cfg.TimeToLive = cache.UnlimitedTTL
	}

	cfg.Logger = c07Logger(cc.Log)

	ops := []bop{
		{name: "ExpireAll", kind: "expireall"},
		{name: "DeleteAll", kind: "deleteall"},
		{name: "Advance(6m)", kind: "advance", adv: 6 * time.Minute},
		{name: "Cleanup", kind: "cleanup"},
		{name: "WriteAll", kind: "writeall"},
	}

	var seqs [][]int

	cur := [][]int{{}}
	for l := 0; l < 3; l++ {
		var next [][]int

		for _, q := range cur {
			for o := range ops {
				next = append(next, append(append([]int{}, q...), o))
			}
		}

		seqs = append(seqs, next...)
		cur = next
	}

	seen := map[string]bool{}

	for _, seq := range seqs {
		vclock.Reset()

		st := &bstate{b: newBackend(cc.Backend, cfg), m: ref.NewExpMap(cfg.TimeToLive), keys: keys, cfg: cfg}
		writeAll := func() (string, bool) {
			for k := range keys {
				ttl := time.Duration(0)
				if k%3 == 1 {
					ttl = 10 * time.Second
				}

				if msg, ok := st.apply(bop{name: fmt.Sprintf("Write(shard %d)", k), kind: "write", key: k, val: k, ttl: ttl}); !ok {
					return msg, false
				}
			}

			return "", true
		}

		msg, ok := writeAll()

		var names []string

		for _, o := range seq {
			if !ok {
				break
			}

			names = append(names, ops[o].name)

			func() {
				defer func() {
					if r := recover(); r != nil {
						msg, ok = fmt.Sprintf("%s panicked: %v", ops[o].name, r), false
					}
				}()

				if ops[o].kind == "writeall" {
					msg, ok = writeAll()
				} else {
					msg, ok = st.apply(ops[o])
				}
			}()

			res.Transitions++
		}

		res.Execs++
		res.States++

		if !ok {
			sig := "C07 " + cc.Backend + " all-shards " + classify(msg)
			if !seen[sig] {
				seen[sig] = true
				res.Violations = append(res.Violations, Violation{Signature: sig, Detail: msg + "\n  one key per shard written, then: " + strings.Join(names, "; ")})
			}

			continue
		}

		res.Outcomes[fmt.Sprintf("all-shards len=%d", len(seq))]++

		if res.Sample == nil && len(seq) == 3 {
			res.Sample = map[string]interface{}{"keys": len(keys), "one_key_per_shard": true, "sequence": names}
		}
	}

	return res
}

// c07LongKeys: keys far longer than anything a fixed-size window would cover; two of them differ in the very last
// byte only, the third is a (long) prefix of both.
var c07LongKeys = func() [][]byte {
	a := bytes.Repeat([]byte("long-key-segment/"), 18)[:300]
	b := append([]byte(nil), a...)
	b[len(b)-1] ^= 1

	return [][]byte{a, b, append([]byte(nil), a[:160]...)}
}()

// c07KeySet returns the keys a cell works on.
func c07KeySet(kind, tier string) [][]byte {
	if kind == "long" {
		return c07LongKeys
	}

	return c07Keys[:c07NKeys(tier)]
}

func c07NKeys(tier string) int {
	if tier == "thorough" {
		return 4
	}

	return 3
}

func c07Spec(cc c07Cell, tier string, depth int) (SeqSpec, []bop) {
	keys := c07KeySet(cc.Keys, tier)
	ops := c07Alphabet(keys, cc.Backend != "SyncMap")
	cfg := cache.Config{Name: "c07", ExpirationJitter: -1, TimeToLive: 5 * time.Minute}

	if cc.TTL == "unlimited" {
		cfg.TimeToLive = cache.UnlimitedTTL
	}

	names := make([]string, len(ops))
	for i, o := range ops {
		names[i] = o.name
	}

	sp := SeqSpec{
		Ops:   names,
		Depth: depth,
		New: func() interface{} {
			vclock.Reset()

			s := &bstate{b: newBackend(cc.Backend, cfg), m: ref.NewExpMap(cfg.TimeToLive), keys: keys, cfg: cfg}
			if cc.First >= 0 {
				if msg, ok := s.apply(ops[cc.First]); !ok {
					panic("first-op failure is reported by the dedicated cell: " + msg)
				}
			}

			return s
		},
		Apply: func(s interface{}, op int) (string, bool) { return s.(*bstate).apply(ops[op]) },
		Canon: func(s interface{}) string { return s.(*bstate).m.Canon(vclock.NowQuiet()) },
	}

	return sp, ops
}

func seqCellResult(prop string, sigPrefix string, sr SeqResult, first string) CellResult {
	res := CellResult{
		Execs: sr.Transitions, Transitions: sr.Transitions, States: sr.States, MaxDepth: sr.MaxDepth,
		Exhaustive: sr.Exhaustive, CapHit: sr.CapHit, Outcomes: sr.Outcomes,
	}

	if sr.Sample != nil {
		res.Sample = map[string]interface{}{"first_op": first, "sequence": sr.Sample}
	}

	for _, f := range sr.Failures {
		js, _ := json.Marshal(f.Seq)
		res.Violations = append(res.Violations, Violation{
			Signature: sigPrefix + " " + classify(f.Detail),
			Detail:    f.Detail + "\n  sequence: " + first + "; " + strings.Join(f.Names, "; "),
			Extra:     js,
		})
	}

	return res
}

// classify maps a mismatch message "after <op>: <class>: <details>" to "<op-class> <class>" so that one
// defect has one signature regardless of keys and values.
func classify(detail string) string {
	d := detail
	op := ""

	if strings.HasPrefix(d, "after ") {
		if i := strings.Index(d, ": "); i > 0 {
			op = opClass(d[6:i]) + ":"
			d = d[i+2:]
		}
	}

	if i := strings.Index(d, ":"); i > 0 {
		d = d[:i]
	}

	if len(d) > 80 {
		d = d[:80]
	}

	return strings.ReplaceAll(op+d, " ", "_")
}

func c07Run(c Cell, env *Env) CellResult {
	var cc c07Cell
	_ = json.Unmarshal([]byte(c.ID), &cc)

	if cc.Keys == "allshards" {
		return c07AllShards(cc, env)
	}

	depth := 3 // plus the first op = sequences of 4
	if env.Thorough() {
		depth = 4
	}

	if cc.Keys == "long" {
		depth-- // the long-key cells are about key identity: one operation less
	}

	sp, ops := c07Spec(cc, env.Tier, depth)

	if env.Replay != nil {
		var seq []int
		_ = json.Unmarshal(env.Replay.Extra, &seq)

		fmt.Printf("cell %s\n  first op: %s\n", c.ID, ops[cc.First].name)

		res := CellResult{}
		if msg, ok := ReplaySeq(sp, seq, true); !ok {
			res.Violations = append(res.Violations, Violation{Signature: "C07 " + cc.Backend + " " + classify(msg), Detail: msg})
		}

		return res
	}

	// The first operation itself is a transition too: check it from the initial state.
	pre := cc
	pre.First = -1
	spre, _ := c07Spec(pre, env.Tier, 1)
	s0 := spre.New()

	if msg, ok := spre.Apply(s0, cc.First); !ok {
		return CellResult{Exhaustive: true, Execs: 1, Transitions: 1, States: 1, Violations: []Violation{{
			Signature: "C07 " + cc.Backend + " " + classify(msg), Detail: msg + "\n  sequence: " + ops[cc.First].name,
		}}}
	}

	sr := RunSeq(sp, env.Deadline, 6)

	return seqCellResult("C07", "C07 "+cc.Backend, sr, ops[cc.First].name)
}

func init() {
	Register(&Prop{
		ID: "C07", Title: "Backends behave as a map with per-entry expiry (sequential model)",
		Cells: c07Cells, Run: c07Run,
		Rule: "explicit-state BFS over operation sequences (Write with default/+10s/-10s TTL, Read, Read under SkipRead, Delete, ExpireAll, DeleteAll, " +
			"Load/Store, Advance 11s/6m) on keys {empty, 1 byte, 70 bytes, binary} and, one operation shorter, on 300-byte keys {two differing in the last byte, a 160-byte prefix of them}; every transition calls the real backend and the reference map in lock-step and " +
			"every key argument is passed in one caller-owned buffer that is overwritten after the call returns; compares the return value, then Len and a full Walk; states are deduplicated on the canonical (key,value,expiry-now) set; " +
			"an outcome is (operation class, observed result); plus cells with one key in EVERY shard (and two in the first and last) under every sequence of <=3 operations from {ExpireAll, DeleteAll, Advance 6m, Cleanup, rewrite all}",
		Assumptions: []string{
			"virtual clock: time moves only by Advance operations and by a 1ns tick after every call",
			"expiration jitter disabled (-1) so that expiry instants are exact; jitter is C10's subject",
			"quick: 3 keys, all sequences of 4 operations; thorough: 4 keys, sequences of 5",
			"at the exact expiry instant either answer (fresh / expired) is accepted, as the documentation leaves it open",
		},
	})
}

var _ = sort.Strings
