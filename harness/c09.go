package harness

import (
	"bytes"
	"context"
	"encoding/json"
	"errors"
	"fmt"
	"sort"
	"strings"
	"time"

	"github.com/anishathalye/porcupine"
	"github.com/bool64/cache"

	"verif/ref"
	"verif/vclock"
	"verif/vsched"
)

// C09 — keys are isolated: hash collisions and key-buffer reuse never leak (DESIGN §C09).

type c09Cell struct {
	Mode     string `json:"mode"`        // seq | failover | conc
	A        []int  `json:"a,omitempty"` // conc: thread A program
	Backend  string `json:"backend,omitempty"`
	Scribble bool   `json:"scribble,omitempty"` // overwrite the key buffer after every call
	First    int    `json:"first"`
	F        *FCfg  `json:"f,omitempty"`
}

func (c c09Cell) id() string { js, _ := json.Marshal(c); return string(js) }

var c09KeySet [][]byte

func c09Keys() [][]byte {
	if c09KeySet == nil {
		base := bytes.Repeat([]byte("collide!"), 8)
		c09KeySet = append(collidingKeys(base, 3), []byte("plain-key"))
	}

	return c09KeySet
}

func c09Alphabet() []bop {
	var ops []bop

	kn := func(i int) string {
		if i < 3 {
			return fmt.Sprintf("c%d", i)
		}

		return "p"
	}

	for k := 0; k < 4; k++ {
		ops = append(ops, bop{name: "Read(" + kn(k) + ")", kind: "read", key: k})
	}

	for k := 0; k < 4; k++ {
		ops = append(ops, bop{name: fmt.Sprintf("Write(%s,%d)", kn(k), 10+k), kind: "write", key: k, val: 10 + k})
	}

	for k := 0; k < 4; k++ {
		ops = append(ops, bop{name: "Delete(" + kn(k) + ")", kind: "delete", key: k})
	}

	ops = append(ops,
		bop{name: "ExpireAll", kind: "expireall"},
		bop{name: "Advance(6m)", kind: "advance", adv: 6 * time.Minute},
		bop{name: "Invalidate(L)", kind: "invalidate"},
	)

	for k := 0; k < 3; k++ {
		ops = append(ops, bop{name: "Label(" + kn(k) + ",L)", kind: "label", key: k})
	}

	// the sync.Map-style entry point of the sharded backends (two of the colliding keys)
	for k := 0; k < 2; k++ {
		ops = append(ops, bop{name: "Load(" + kn(k) + ")", kind: "load", key: k})
	}

	return ops
}

// c09state: the ideal per-key model (no collisions) plus the bookkeeping that justifies a miss.
type c09state struct {
	b         backend
	m         *ref.ExpMap
	keys      [][]byte
	scribble  bool
	seq       int
	lastWrite map[string]int // op index of the last write of a key
	labelled  map[string]bool
	buf       []byte
}

// arg returns the slice passed to the backend for key i: a fresh copy, or the shared scratch buffer.
func (s *c09state) arg(i int) []byte {
	if !s.scribble {
		return append([]byte(nil), s.keys[i]...)
	}

	s.buf = s.buf[:len(s.keys[i])]
	copy(s.buf, s.keys[i])

	return s.buf
}

func (s *c09state) after() {
	if s.scribble {
		full := s.buf[:cap(s.buf)]
		for i := range full {
			full[i] = 0xEE
		}
	}
}

// missJustified: the implementation may have lost key k only because a colliding key was written later.
func (s *c09state) missJustified(k int) bool {
	if k >= 3 || s.b.Kind() == "SyncMap" {
		return false
	}

	lw, ok := s.lastWrite[string(s.keys[k])]
	if !ok {
		return false
	}

	for j := 0; j < 3; j++ {
		if j != k {
			if w, ok := s.lastWrite[string(s.keys[j])]; ok && w > lw {
				return true
			}
		}
	}

	return false
}

func (s *c09state) keyIndex(k []byte) int {
	for i, x := range s.keys {
		if bytes.Equal(x, k) {
			return i
		}
	}

	return -1
}

func (s *c09state) apply(o bop) (string, bool) {
	ctx := context.Background()
	now := vclock.NowQuiet()
	s.seq++

	obs := "ok"
	isMiss := func(err error) bool {
		_, _, exp := s.b.Expired(err)
		return err != nil && errors.Is(err, cache.ErrNotFound) && !exp
	}

	switch o.kind {
	case "write":
		if err := s.b.Write(ctx, s.arg(o.key), o.val); err != nil {
			return "Write failed: " + err.Error(), false
		}

		s.after()
		s.m.Write(string(s.keys[o.key]), o.val, 0, now)
		s.lastWrite[string(s.keys[o.key])] = s.seq
	case "read":
		v, err := s.b.Read(ctx, s.arg(o.key))
		s.after()

		me, st, edge := s.m.Read(string(s.keys[o.key]), now, false)
		bs := &bstate{b: s.b, m: s.m, keys: s.keys}

		if msg, ok := bs.compareRead("Read", v, err, me, st, edge); !ok {
			if !(isMiss(err) && s.missJustified(o.key)) {
				return "key isolation: " + msg, false
			}

			obs = "miss-by-collision"
		} else {
			obs = msg
		}
	case "load":
		if s.b.Kind() == "SyncMap" {
			return "n/a", true // SyncMap has no Load/Store
		}

		v, found := s.b.Load(s.arg(o.key))
		s.after()

		me, st, edge := s.m.Read(string(s.keys[o.key]), now, false)

		switch {
		case found && (st != ref.Hit && !edge):
			return fmt.Sprintf("key isolation: Load returned (%v, true) for a key the model holds as %s", v, st), false
		case found && v != me.V:
			return fmt.Sprintf("key isolation: Load returned value %v, the key's own value is %v", v, me.V), false
		case !found && st == ref.Hit && !edge && !s.missJustified(o.key):
			return "key isolation: Load misses a fresh entry without a colliding write to explain it", false
		}

		obs = fmt.Sprint(found)
	case "delete":
		err := s.b.Delete(ctx, s.arg(o.key))
		s.after()

		_, existed := s.m.M[string(s.keys[o.key])]

		switch {
		case existed && err != nil:
			if !(errors.Is(err, cache.ErrNotFound) && s.missJustified(o.key)) {
				return fmt.Sprintf("Delete of an existing key failed: %v", err), false
			}

			obs = "notfound-by-collision"
		case !existed && !errors.Is(err, cache.ErrNotFound):
			return fmt.Sprintf("Delete of a missing key did not return ErrNotFound: %v (an entry of another key was deleted?)", err), false
		}

		s.m.Delete(string(s.keys[o.key])) // the label association of a key survives its deletion
	case "expireall":
		s.b.ExpireAll(ctx)
		s.m.ExpireAll(now)
	case "advance":
		vclock.Advance(o.adv)
	case "label":
		s.b.Index().AddInvalidationLabels(s.arg(o.key), "L")
		s.after()
		s.labelled[string(s.keys[o.key])] = true
	case "invalidate":
		n, err := s.b.Index().InvalidateByLabels(ctx, "L")
		if err != nil {
			return "InvalidateByLabels failed: " + err.Error(), false
		}

		want := 0

		for k := range s.labelled {
			if s.m.Delete(k) {
				want++
			}
		}

		if n > want {
			return fmt.Sprintf("InvalidateByLabels removed %d entries, only %d labelled entries exist (an entry of another key was deleted?)", n, want), false
		}

		s.labelled = map[string]bool{}
		obs = fmt.Sprint(n)
	}

	vclock.Advance(time.Nanosecond)

	// State: everything the implementation holds is what the ideal model holds for that very key;
	// whatever it lacks must be explained by a later write of a colliding key.
	seen := map[string]bool{}

	n, err := s.b.Walk(func(k []byte, v interface{}, at time.Time) error {
		if s.keyIndex(k) < 0 {
			return fmt.Errorf("Walk reports a key that was never written: %q", k)
		}

		me, ok := s.m.M[string(k)]
		if !ok {
			return fmt.Errorf("Walk reports key #%d which the model does not hold (deleted entry resurrected or stored under a wrong key)", s.keyIndex(k))
		}

		if v != me.V || !at.Equal(timeOfE(me.E)) {
			return fmt.Errorf("Walk reports (%v, %d) for key #%d, the model has (%v, %d): value or expiry of another key", v, at.UnixNano(), s.keyIndex(k), me.V, me.E)
		}

		seen[string(k)] = true

		return nil
	})
	if err != nil {
		return "after " + o.name + ": key isolation: " + err.Error(), false
	}

	if n != len(seen) || s.b.Len() != n {
		return fmt.Sprintf("after %s: Walk count %d, distinct keys %d, Len %d disagree", o.name, n, len(seen), s.b.Len()), false
	}

	for k := range s.m.M {
		if !seen[k] && !s.missJustified(s.keyIndex([]byte(k))) {
			return fmt.Sprintf("after %s: key isolation: key #%d is gone although no colliding key was written after it (deleted through another key?)", o.name, s.keyIndex([]byte(k))), false
		}
	}

	return obs, true
}

func c09Cells(tier string) []Cell {
	var cells []Cell

	for _, b := range backendKinds {
		for _, scr := range []bool{false, true} {
			for first := range c09Alphabet() {
				cells = append(cells, Cell{ID: c09Cell{Mode: "seq", Backend: b, Scribble: scr, First: first}.id()})
			}
		}
	}

	// Concurrent operations on two keys with the SAME hash: per-slot linearizability.
	for _, b := range backendKinds {
		for _, a := range c08Progs(2) {
			cells = append(cells, Cell{ID: c09Cell{Mode: "conc", Backend: b, A: a}.id()})
		}
	}

	// Failover: the caller overwrites / reuses the key buffer while the background build runs.
	progs := [][][]GOp{
		{{{Key: 0, Mut: true}}, {{Key: 0}}},
		{{{Key: 0, Reuse: true}, {Key: 1, Reuse: true}}, {{Key: 0}}},
		{{{Key: 0, Reuse: true}, {Key: 1, Reuse: true}}},
	}

	for front := 0; front < 3; front++ {
		for bits := 0; bits < 8; bits++ {
			for _, init := range []string{"S", "A", "T"} {
				for _, sc := range []string{"o", "f"} {
					for pi, p := range progs {
						c := FCfg{Front: front, SR: boolBits(bits, 0), FH: boolBits(bits, 1), MS: boolBits(bits, 2), Init: init, FailC: "0", Script: sc, Threads: p}
						if pi > 0 {
							c.Init, c.FailC = init+"S", "00"
						}

						cells = append(cells, Cell{ID: c09Cell{Mode: "failover", F: &c}.id()})
					}

					// the builder writes to caches of its own with the context it was handed and reuses its key buffer
					if sc == "o" {
						sw := FCfg{Front: front, SR: boolBits(bits, 0), SU: boolBits(bits, 1), MS: boolBits(bits, 2), Init: init + "S", FailC: "00", Script: sc,
							Threads: [][]GOp{{{Key: 0}, {Key: 1}}}, Tags: []string{"sidewrite"}}
						cells = append(cells, Cell{ID: c09Cell{Mode: "failover", F: &sw}.id()})
					}

					// two Gets on two different keys with the same xxhash64
					col := FCfg{Front: front, SR: boolBits(bits, 0), SU: boolBits(bits, 1), MS: boolBits(bits, 2), Init: init + "A", FailC: "00", Script: sc, Collide: true,
						Threads: [][]GOp{{{Key: 0}}, {{Key: 1}}}}
					cells = append(cells, Cell{ID: c09Cell{Mode: "failover", F: &col}.id()})
				}
			}
		}
	}

	return cells
}

func c09Seq(cc c09Cell, env *Env) CellResult {
	ops := c09Alphabet()

	depth := 3
	if env.Thorough() {
		depth = 5
	}

	names := make([]string, len(ops))
	for i, o := range ops {
		names[i] = o.name
	}

	mk := func() *c09state {
		vclock.Reset()

		cfg := cache.Config{Name: "c09", ExpirationJitter: -1, TimeToLive: 5 * time.Minute}

		return &c09state{b: newBackend(cc.Backend, cfg), m: ref.NewExpMap(cfg.TimeToLive), keys: c09Keys(), scribble: cc.Scribble,
			lastWrite: map[string]int{}, labelled: map[string]bool{}, buf: make([]byte, 0, 64)}
	}

	sig := "C09 " + cc.Backend
	if cc.Scribble {
		sig += " buffer-reuse"
	}

	s0 := mk()
	if msg, ok := s0.apply(ops[cc.First]); !ok {
		return CellResult{Exhaustive: true, Execs: 1, States: 1, Transitions: 1, Violations: []Violation{{Signature: sig + " " + classify(msg), Detail: msg + "\n  sequence: " + ops[cc.First].name}}}
	}

	sp := SeqSpec{
		Ops: names, Depth: depth,
		New: func() interface{} {
			s := mk()
			if msg, ok := s.apply(ops[cc.First]); !ok {
				panic(msg)
			}

			return s
		},
		Apply: func(s interface{}, op int) (string, bool) { return s.(*c09state).apply(ops[op]) },
		Canon: func(s interface{}) string {
			x := s.(*c09state)

			// implementation content matters too (which of the colliding keys currently owns the slot)
			var have []string

			_, _ = x.b.Walk(func(k []byte, v interface{}, at time.Time) error {
				have = append(have, fmt.Sprint(x.keyIndex(k)))
				return nil
			})

			sort.Strings(have)

			var lab []string
			for k := range x.labelled {
				lab = append(lab, fmt.Sprint(x.keyIndex([]byte(k))))
			}

			sort.Strings(lab)

			var lw []string
			for i := 0; i < 3; i++ {
				lw = append(lw, fmt.Sprint(x.missJustified(i)))
			}

			return x.m.Canon(vclock.NowQuiet()) + "|" + strings.Join(have, ",") + "|" + strings.Join(lab, ",") + "|" + strings.Join(lw, ",")
		},
	}

	if env.Replay != nil {
		var seq []int
		_ = json.Unmarshal(env.Replay.Extra, &seq)

		res := CellResult{}
		if msg, ok := ReplaySeq(sp, seq, true); !ok {
			res.Violations = append(res.Violations, Violation{Signature: sig + " " + classify(msg), Detail: msg})
		}

		return res
	}

	sr := RunSeq(sp, env.Deadline, 6)

	return seqCellResult("C09", sig, sr, ops[cc.First].name)
}

func c09Failover(cfg FCfg, env *Env) CellResult {
	opt := vsched.Options{PreemptionBound: 2, EnvBound: 0, HBCache: true}
	if env.Thorough() {
		opt = vsched.Options{PreemptionBound: -1, EnvBound: 0, HBCache: true, MaxExecs: 400000}
	}

	front := frontNames[cfg.Front]

	return exploreF(cfg, env, opt, nil, func(h *fh, r *vsched.Result) []Violation {
		var vs []Violation

		for _, k := range h.front.WalkKeys() {
			if h.cfg.Collide {
				break
			}

			if h.keyIndex([]byte(k)) < 0 || k == mutatedKey {
				vs = append(vs, Violation{Signature: fmt.Sprintf("C09 %s value-stored-under-overwritten-key", front),
					Detail: fmt.Sprintf("after quiescence the backend holds key %q, which is what the caller wrote into its buffer AFTER Get returned; no Get was issued for it", k)})
			}
		}

		// Every successful build must be readable under the key it was requested for.
		for _, e := range h.log {
			if e.Kind == "write" && e.Key != 3 && e.Name != h.names[e.Key] {
				vs = append(vs, Violation{Signature: fmt.Sprintf("C09 %s write-under-wrong-key", front), Detail: fmt.Sprintf("backend Write for key %q carried key bytes %q", h.names[e.Key], e.Name)})
			}
		}

		for k := range h.names {
			var last *FEv

			for i := range h.log {
				if e := &h.log[i]; e.Kind == "build-end" && e.Key == k && e.Err == nil {
					last = e
				}
			}

			if last == nil {
				continue
			}

			t, isNil, _, found := h.front.Peek(h.keys[k])
			if h.cfg.Collide {
				continue // the colliding key may legitimately have evicted it
			}

			if !found || isNil || t.K != h.names[k] || t.O != "b" {
				vs = append(vs, Violation{Signature: fmt.Sprintf("C09 %s built-value-not-under-original-key", front),
					Detail: fmt.Sprintf("key %s was built successfully (%v) but the backend holds (%v found=%v) under the original key bytes", h.names[k], last.Tok, t, found)})
			}
		}

		// What the builder stored in its own caches sits under the key bytes it passed in, whatever it did to its buffer
		// afterwards.
		if h.sideSM != nil {
			want := map[string]bool{}

			for k, n := range h.nbuild {
				if n > 0 {
					want["part-of-"+h.names[k]] = true
				}
			}

			got := map[string]bool{}
			_, _ = h.sideSM.Walk(func(e cache.Entry) error { got["ShardedMap:"+string(e.Key())] = true; return nil })
			_, _ = h.sideOF.Walk(func(e cache.EntryOf[int]) error { got["ShardedMapOf:"+string(e.Key())] = true; return nil })

			for _, kind := range []string{"ShardedMap", "ShardedMapOf"} {
				for k := range want {
					if !got[kind+":"+k] {
						vs = append(vs, Violation{Signature: fmt.Sprintf("C09 %s builder-side-write-lost-its-key %s", front, kind),
							Detail: fmt.Sprintf("the builder wrote %q to a %s of its own (with the context it was handed) and then reused its key buffer; the cache now holds keys %v", k, kind, got)})
					}
				}
			}

			if len(got) != 2*len(want) {
				vs = append(vs, Violation{Signature: fmt.Sprintf("C09 %s builder-side-write-foreign-key", front),
					Detail: fmt.Sprintf("the builder's own caches hold %v, written were %v (each to both)", got, want)})
			}
		}

		if n := h.front.KeyLocks(); n != 0 {
			vs = append(vs, Violation{Signature: fmt.Sprintf("C09 %s unlock-of-wrong-key", front), Detail: fmt.Sprintf("%d key locks left: the background build unlocked the overwritten key instead of the original", n)})
		}

		vs = append(vs, provenance(h, "C09")...)

		return vs
	})
}

// slot model of two colliding keys: ShardedMap keeps one entry per hash, so c0 and c1 share one slot.
// (SyncMap keys by the full key: two independent registers.)
type slotState struct {
	Present bool
	Key     int
	Val     int
}

type slotIn struct {
	Op  string
	Key int
	Val int
}

func slotModel(shared bool) porcupine.Model {
	type st struct{ s [2]slotState } // shared: only s[0] is used

	return porcupine.Model{
		Init: func() interface{} {
			var x st
			x.s[0] = slotState{Present: true, Key: 0, Val: 0}

			return x
		},
		Step: func(state, input, output interface{}) (bool, interface{}) {
			x := state.(st)
			in := input.(slotIn)
			out, _ := output.(regOut)
			i := 0

			if !shared {
				i = in.Key
			}

			cur := x.s[i]
			mine := cur.Present && cur.Key == in.Key

			switch in.Op {
			case "write":
				x.s[i] = slotState{Present: true, Key: in.Key, Val: in.Val}
				return true, x
			case "read":
				if out.Kind == "hit" {
					return mine && cur.Val == out.Val, x
				}

				return out.Kind == "miss" && !mine, x
			case "delete":
				if out.Kind == "found" {
					if !mine {
						return false, x
					}

					x.s[i] = slotState{}

					return true, x
				}

				return out.Kind == "notfound" && !mine, x
			}

			return false, x
		},
		DescribeOperation: func(in, out interface{}) string { return fmt.Sprintf("%v -> %v", in, out) },
	}
}

func c09Conc(cc c09Cell, env *Env) CellResult { return c09ConcAs("C09", cc, env) }

// c09ConcAs is the concurrent collision exploration reported under the given property id (C08's key set is
// "partly hash-colliding" too).
func c09ConcAs(prop string, cc c09Cell, env *Env) CellResult {
	res := CellResult{Exhaustive: true, Outcomes: map[string]int{}}
	keys := c09Keys()[:2]
	model := slotModel(cc.Backend != "SyncMap")

	type ev struct {
		in        slotIn
		out       regOut
		call, ret int64
		client    int
	}

	progsB := c08Progs(1)
	if env.Thorough() {
		progsB = c08Progs(2)
	}

	seenSig := map[string]bool{}

	for pi, pb := range progsB {
		if env.Replay != nil {
			var idx int
			_ = json.Unmarshal(env.Replay.Extra, &idx)

			if idx != pi {
				continue
			}
		}

		var (
			b    backend
			evs  []ev
			tick int64
			next int
			bad  []string
		)

		do := func(client, op int) {
			ctx := context.Background()
			k := op % 2
			e := ev{client: client}
			tick++
			e.call = tick

			switch op / 2 {
			case 0:
				next++
				e.in = slotIn{Op: "write", Key: k, Val: next}
				_ = b.Write(ctx, keys[k], next)
			case 1:
				e.in = slotIn{Op: "read", Key: k}
				v, err := b.Read(ctx, keys[k])

				switch {
				case err == nil:
					e.out = regOut{Kind: "hit", Val: v.(int)}
				case errors.Is(err, cache.ErrNotFound):
					e.out = regOut{Kind: "miss"}
				default:
					bad = append(bad, "Read: "+err.Error())
				}
			case 2:
				e.in = slotIn{Op: "delete", Key: k}
				err := b.Delete(ctx, keys[k])

				switch {
				case err == nil:
					e.out = regOut{Kind: "found"}
				case errors.Is(err, cache.ErrNotFound):
					e.out = regOut{Kind: "notfound"}
				default:
					bad = append(bad, "Delete: "+err.Error())
				}
			}

			tick++
			e.ret = tick
			evs = append(evs, e)
		}

		body := func() {
			vclock.Reset()

			b = newBackend(cc.Backend, cache.Config{Name: "c09c", ExpirationJitter: -1, TimeToLive: 5 * time.Minute})
			evs, tick, next, bad = nil, 0, 100, nil
			_ = b.Write(context.Background(), keys[0], 0)

			vsched.SpawnThread("a", func() {
				for _, o := range cc.A {
					do(0, o)
				}
			})
			vsched.SpawnThread("b", func() {
				for _, o := range pb {
					do(1, o)
				}
			})
			vsched.Join()
		}

		check := func(r *vsched.Result) []Violation {
			sig := prop + " " + cc.Backend + " concurrent-collision"

			if r.Deadlock || r.Panic != nil {
				return []Violation{{Signature: sig + " fatal", Detail: fmt.Sprintf("deadlock=%v panic=%v %s", r.Deadlock, r.Panic, r.PanicStack)}}
			}

			var vs []Violation

			for _, m := range bad {
				vs = append(vs, Violation{Signature: sig + " unexpected", Detail: m})
			}

			var ops []porcupine.Operation
			for _, e := range evs {
				ops = append(ops, porcupine.Operation{ClientId: e.client, Input: e.in, Output: e.out, Call: e.call, Return: e.ret})
			}

			if len(ops) > 0 && !porcupine.CheckOperations(model, ops) {
				var sb strings.Builder
				for _, o := range ops {
					fmt.Fprintf(&sb, "\n    client %d [%d,%d] %v -> %v", o.ClientId, o.Call, o.Return, o.Input, o.Output)
				}

				vs = append(vs, Violation{Signature: sig + " not-linearizable",
					Detail: "history on two keys with equal xxhash64 (key 0 preloaded with value 0) is not explained by any order in which an operation on one key only affects that key, except that a write may evict the colliding key:" + sb.String()})
			}

			return vs
		}

		if env.Replay != nil {
			r := vsched.Replay(env.Replay.Choices, body)
			res.Violations = check(r)

			fmt.Print(vsched.FormatTrace(r))

			return res
		}

		st := vsched.Explore(vsched.Options{PreemptionBound: -1, EnvBound: 0, HBCache: true, MaxExecs: 200000, Deadline: env.Deadline}, body, func(r *vsched.Result) bool {
			for _, v := range check(r) {
				if !seenSig[v.Signature] {
					seenSig[v.Signature] = true
					v.Choices = r.Choices()
					mustReproduce(v.Signature, v.Choices, body, check)
					mustReproduce(v.Signature, v.Choices, body, check)
					v.Extra, _ = json.Marshal(pi)
					v.Detail += fmt.Sprintf("\n  program: A=%v B=%v", opNames(cc.A), opNames(pb))
					res.Violations = append(res.Violations, v)
				}
			}

			var oc []string
			for _, e := range evs {
				oc = append(oc, e.out.Kind)
			}

			res.Outcomes[strings.Join(oc, ",")]++

			if res.Sample == nil && len(evs) > 2 {
				res.Sample = map[string]interface{}{"colliding_keys_concurrent": true, "A": opNames(cc.A), "B": opNames(pb), "schedule": r.Choices()}
			}

			return true
		})

		res.Execs += st.Execs
		res.Transitions += st.Transitions
		res.States += st.HBStates

		if st.MaxDepth > res.MaxDepth {
			res.MaxDepth = st.MaxDepth
		}

		if !st.Exhaustive {
			res.Exhaustive, res.CapHit = false, st.CapHit
		}
	}

	return res
}

func c09Run(c Cell, env *Env) CellResult {
	var cc c09Cell
	_ = json.Unmarshal([]byte(c.ID), &cc)

	if cc.Mode == "conc" {
		return c09Conc(cc, env)
	}

	if cc.Mode == "failover" {
		return c09Failover(*cc.F, env)
	}

	return c09Seq(cc, env)
}

func init() {
	Register(&Prop{
		ID: "C09", Title: "Keys are isolated: hash collisions and key-buffer reuse never leak",
		Cells: c09Cells, Run: c09Run,
		Rule: "three pairwise xxhash64-colliding 64-byte keys are CONSTRUCTED from the hash's algebra (asserted against cespare/xxhash at run time) plus one plain key; " +
			"BFS over sequences of Read/Write/Delete/ExpireAll/Advance/AddInvalidationLabels/InvalidateByLabels on them for 3 backends, once with fresh key slices and once with one scratch buffer that is overwritten after every call; " +
			"oracle: every answer is the ideal per-key model's answer, or a miss that a later write of a colliding key explains; Walk reports only written keys with their own value and expiry; " +
			"Failover: caller overwrites / reuses the key buffer at every scheduling position relative to the background build; the built value must sit under the original key bytes; what the builder writes to caches of its own (with the context it was handed, from a scratch key buffer) must sit under the bytes it passed in; " +
			"concurrent: thread A every 1-2 op sequence, thread B every 1 (thorough 1-2) op sequence over {Write,Read,Delete} x two colliding keys, all schedules, each history checked with porcupine against a slot model (an operation affects its own key only; a write may evict the colliding key)",
		Assumptions: []string{
			"a collision may cost a miss only when a colliding key was written after the key's last write (stricter than 'any miss', independent of the slot design)",
			"quick: sequences of 4 operations; thorough: sequences of 6",
		},
	})
}
