package harness

import (
	"encoding/binary"
	"math/bits"

	"github.com/cespare/xxhash/v2"
)

// xxhash64 consumes 32-byte stripes in four 8-byte lanes: acc = rotl(acc + lane*P2, 31) * P1.
// P1 and P2 are odd, hence invertible mod 2^64. For a 64-byte key (two stripes) one may choose lane 0 of
// stripe 1 freely and solve lane 0 of stripe 2 so that the lane accumulator after both stripes is
// unchanged: a different key with the same 64-bit hash.

var (
	xxP1 uint64 = 11400714785074694791
	xxP2 uint64 = 14029467366897019727
)

func inv64(a uint64) uint64 {
	x := a // a*x == 1 mod 2^3 for odd a
	for i := 0; i < 6; i++ {
		x *= 2 - a*x
	}

	return x
}

func xxRound(acc, in uint64) uint64 {
	return bits.RotateLeft64(acc+in*xxP2, 31) * xxP1
}

// collidingKeys returns n pairwise different 64-byte keys with equal xxhash64, derived from base.
func collidingKeys(base []byte, n int) [][]byte {
	if len(base) != 64 {
		panic("base key must be 64 bytes")
	}

	v0 := xxP1 + xxP2 // seed 0
	a1 := binary.LittleEndian.Uint64(base[0:8])
	a2 := binary.LittleEndian.Uint64(base[32:40])
	target := xxRound(xxRound(v0, a1), a2)
	p1inv, p2inv := inv64(xxP1), inv64(xxP2)

	keys := [][]byte{append([]byte(nil), base...)}

	for i := 1; i < n; i++ {
		k := append([]byte(nil), base...)
		b1 := a1 + uint64(i)*0x0101010101010101
		mid := xxRound(v0, b1)
		b2 := (bits.RotateLeft64(target*p1inv, -31) - mid) * p2inv

		binary.LittleEndian.PutUint64(k[0:8], b1)
		binary.LittleEndian.PutUint64(k[32:40], b2)
		keys = append(keys, k)
	}

	h := xxhash.Sum64(keys[0])
	for i, k := range keys {
		if xxhash.Sum64(k) != h {
			panic("collision construction failed: xxhash64 differs")
		}

		for j := 0; j < i; j++ {
			if string(keys[j]) == string(k) {
				panic("collision construction produced equal keys")
			}
		}
	}

	return keys
}
