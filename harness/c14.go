package harness

import (
	"bytes"
	"context"
	"encoding/json"
	"errors"
	"fmt"
	"io"
	"net/http"
	"net/http/httptest"
	"os"
	"os/exec"
	"sort"
	"strconv"
	"strings"
	"time"

	"github.com/bool64/cache"

	orders "verif/harness/orders/model"
	users "verif/harness/users/model"
	"verif/vclock"
	"verif/vsched"
)

// C14 — HTTP transfer imports exactly what was exported and refuses mismatched types (DESIGN §C14).

type c14Cell struct {
	Mode    string `json:"mode"` // transfer | faults | hash
	Src     string `json:"src,omitempty"`
	Dst     string `json:"dst,omitempty"`
	Perturb string `json:"perturb,omitempty"` // none | hash-altered | hash-missing | name-altered | name-missing
	Shard   int    `json:"shard"`
	NShards int    `json:"nshards"`
	Pool    int    `json:"pool,omitempty"` // hash: 1 = the pool holds two different types both called model.User
}

func (c c14Cell) id() string { js, _ := json.Marshal(c); return string(js) }

func c14Cells(tier string) []Cell {
	var cells []Cell

	pairs := [][2]string{{"SM", "SM"}, {"SM", "SY"}, {"SY", "SM"}, {"SY", "SY"}, {"OFint", "OFint"}}

	for _, p := range pairs {
		for _, pt := range []string{"none", "hash-altered", "hash-missing", "name-altered", "name-missing"} {
			for sh := 0; sh < 3; sh++ {
				cells = append(cells, Cell{ID: c14Cell{Mode: "transfer", Src: p[0], Dst: p[1], Perturb: pt, Shard: sh, NShards: 3}.id()})
			}
		}

		for sh := 0; sh < 4; sh++ {
			cells = append(cells, Cell{ID: c14Cell{Mode: "faults", Src: p[0], Dst: p[1], Shard: sh, NShards: 4}.id()})
		}
	}

	for sh := 0; sh < 4; sh++ {
		cells = append(cells, Cell{ID: c14Cell{Mode: "hash", Shard: sh, NShards: 4}.id()})
		cells = append(cells, Cell{ID: c14Cell{Mode: "hash", Shard: sh, NShards: 4, Pool: 1}.id()})
	}

	// transfers between processes that registered NOTHING (types hash 0 on both sides): a legitimate setup
	// for caches of builtin values; each pairing in a fresh process
	for _, p := range pairs {
		cells = append(cells, Cell{ID: c14Cell{Mode: "hash0", Src: p[0], Dst: p[1]}.id()})
		cells = append(cells, Cell{ID: c14Cell{Mode: "reimport", Src: p[0], Dst: p[1]}.id()})
	}

	return cells
}

// inproc connects an importer to an exporter's handler without sockets and perturbs request / body.
type inproc struct {
	h        http.Handler
	perturb  string
	cutAt    int // -1 = no cut
	failAt   int // -1 = no read error
	statuses []int
	bodyLen  int
	faultFor string // cut / read error only in the response for this cache name ("" = every response)
}

var errBodyFault = errors.New("injected body read failure")

type faultReader struct {
	data   []byte
	pos    int
	failAt int
}

func (r *faultReader) Read(p []byte) (int, error) {
	if r.failAt >= 0 && r.pos >= r.failAt {
		return 0, errBodyFault
	}

	if r.pos >= len(r.data) {
		return 0, io.EOF
	}

	end := len(r.data)
	if r.failAt >= 0 && end > r.failAt {
		end = r.failAt
	}

	n := copy(p, r.data[r.pos:end])
	r.pos += n

	return n, nil
}

func (r *faultReader) Close() error { return nil }

// c14ExportURL: the export endpoint is reached through a URL that carries parameters of its own (routing, a
// token), which the serving side insists on; the importer has to keep them.
const c14ExportURL = "http://exporter.invalid/export?action=cache+export&token=a%2Bb%26c"

func (t *inproc) RoundTrip(req *http.Request) (*http.Response, error) {
	// like net/http's transport: a request whose context is done is not sent
	if err := req.Context().Err(); err != nil {
		t.statuses = append(t.statuses, -1)

		return nil, err
	}

	q := req.URL.Query()
	asked := q.Get("name")

	if q.Get("action") != "cache export" || q.Get("token") != "a+b&c" {
		// the front door: not the export handler's business
		rec := httptest.NewRecorder()
		http.Error(rec, "forbidden: the parameters of the export URL did not arrive", http.StatusForbidden)

		resp := rec.Result()
		t.statuses = append(t.statuses, resp.StatusCode)

		return resp, nil
	}

	switch t.perturb {
	case "hash-altered":
		q.Set("typesHash", q.Get("typesHash")+"1")
	case "hash-missing":
		q.Del("typesHash")
	case "name-altered":
		q.Set("name", q.Get("name")+"-unknown")
	case "name-missing":
		q.Del("name")
	}

	req.URL.RawQuery = q.Encode()

	rec := httptest.NewRecorder()
	t.h.ServeHTTP(rec, req)

	resp := rec.Result()
	body := rec.Body.Bytes()
	t.statuses = append(t.statuses, resp.StatusCode)

	if t.faultFor != "" && asked != t.faultFor {
		resp.Body = &faultReader{data: body, failAt: -1}

		return resp, nil
	}

	t.bodyLen = len(body)

	if t.cutAt >= 0 && t.cutAt < len(body) {
		body = body[:t.cutAt]
	}

	resp.Body = &faultReader{data: body, failAt: t.failAt}

	return resp, nil
}

type c14Entry struct {
	KeyLen int
	Val    int // index into the value alphabet
	Exp    bool
}

func c14EntrySets(kind string) [][]c14Entry {
	nv := len(xferValues(kind))
	sets := [][]c14Entry{{}}

	var singles []c14Entry

	for v := 0; v < nv; v++ {
		for _, e := range []bool{false, true} {
			singles = append(singles, c14Entry{KeyLen: 1, Val: v, Exp: e})
		}
	}

	for _, s := range singles {
		sets = append(sets, []c14Entry{s})
	}

	for _, a := range singles {
		for _, b := range singles {
			b.KeyLen = 9
			sets = append(sets, []c14Entry{a, b})
		}
	}

	return sets
}

func c14Fill(x xfer, kind string, set []c14Entry, salt string) {
	vals := xferValues(kind)
	ctx := context.Background()

	for i, e := range set {
		k := []byte(strings.Repeat(salt, e.KeyLen))[:e.KeyLen]
		k[0] = byte('a' + i)

		wctx := ctx
		if e.Exp {
			wctx = cache.WithTTL(ctx, time.Duration(i+1)*time.Hour, false)
		}

		x.Put(wctx, k, vals[e.Val])
	}
}

// names: 3 cache names, each assigned to exporter only (0), importer only (1), both (2): 27 assignments.
var c14Names = []string{"a", "b&c=d", "e+f %2B#g;h"} // two of the names need URL escaping

func c14Transfer(cc c14Cell, env *Env) CellResult {
	registerGob()

	res := CellResult{Exhaustive: true, Outcomes: map[string]int{}}
	sets := c14EntrySets(cc.Src)
	seen := map[string]bool{}

	defer func() { vsched.MapOrderDesc = false }()

	bad := func(kind, detail string, extra interface{}) {
		sig := fmt.Sprintf("C14 transfer %s->%s %s perturb=%s", cc.Src, cc.Dst, kind, cc.Perturb)
		if !seen[sig] {
			seen[sig] = true
			js, _ := json.Marshal(extra)
			res.Violations = append(res.Violations, Violation{Signature: sig, Detail: detail, Extra: js})
		}
	}

	caseNo := 0

	for assign := 0; assign < 27; assign++ {
		for si, set := range sets {
			// the importer visits its caches in map order: ascending for even cases, descending for odd ones
			vsched.MapOrderDesc = (assign+si)%2 == 1
			caseNo++
			if caseNo%cc.NShards != cc.Shard {
				continue
			}

			if env.Replay != nil {
				var want [2]int
				_ = json.Unmarshal(env.Replay.Extra, &want)

				if want != [2]int{assign, si} {
					continue
				}
			}

			vclock.Reset()

			exp, imp := &cache.HTTPTransfer{}, &cache.HTTPTransfer{}
			exp.Logger, imp.Logger = c14Logger(assign+1), c14Logger(si)
			expC, impC := map[string]xfer{}, map[string]xfer{}
			before := map[string]map[string]xent{}

			for ni, name := range c14Names {
				role := assign / pow3(ni) % 3

				if role == 0 || role == 2 {
					x := newXfer(cc.Src)
					c14Fill(x, cc.Src, set, name+"x")
					expC[name] = x
					exp.AddCache(name, x.WDR())
				}

				if role == 1 || role == 2 {
					x := newXfer(cc.Dst)
					if role == 1 {
						// a cache the exporter does not know must be left alone
						c14Fill(x, cc.Dst, []c14Entry{{KeyLen: 2, Val: 1}}, "zz")
					}

					impC[name] = x
					before[name], _, _ = x.Snapshot()
					imp.AddCache(name, x.WDR())
				}
			}

			// in every third case both sides also hold a cache registered under the empty name (what Config.Name is by
			// default): the exporter cannot be asked for it, so it stays as it is - and the other caches are filled
			if (assign+si)%3 == 0 {
				x := newXfer(cc.Src)
				c14Fill(x, cc.Src, set, "unnamed")
				expC[""] = x
				exp.AddCache("", x.WDR())

				y := newXfer(cc.Dst)
				c14Fill(y, cc.Dst, []c14Entry{{KeyLen: 2, Val: 1}}, "zz")
				impC[""] = y
				before[""], _, _ = y.Snapshot()
				imp.AddCache("", y.WDR())
			}

			tr := &inproc{h: exp.Export(), perturb: cc.Perturb, cutAt: -1, failAt: -1}
			imp.Transport = tr

			var (
				err      error
				panicked interface{}
			)

			func() {
				defer func() { panicked = recover() }()
				err = imp.Import(context.Background(), c14ExportURL)
			}()

			res.Execs++
			res.States++
			res.Transitions += 2 + len(impC)

			extra := [2]int{assign, si}

			if panicked != nil {
				bad("panic", fmt.Sprintf("Import panicked: %v", panicked), extra)
				continue
			}

			if err != nil {
				bad("import-error", fmt.Sprintf("Import returned %v", err), extra)
				continue
			}

			outcome := "ok"

			for name, x := range impC {
				got, order, _ := x.Snapshot()

				for _, o := range order {
					if strings.HasPrefix(o, "DUPLICATE:") {
						bad("duplicate", "Walk of an importer cache visits a key twice", extra)
					}
				}

				src, both := expC[name]

				switch {
				case cc.Perturb != "none":
					// nothing may be imported anywhere
					if msg := compareSnap("importer cache "+name+" after a refused request", before[name], got); msg != "" {
						bad("imported-despite-mismatch", msg, extra)
					}

					outcome = "refused"
				case name == "":
					if msg := compareSnap("importer cache with the empty name (the exporter cannot be asked for it)", before[name], got); msg != "" {
						bad("unnamed-cache-touched", msg, extra)
					}
				case both:
					want, _, _ := src.Snapshot()
					if msg := compareSnap("importer cache "+name, want, got); msg != "" {
						bad("content", msg+fmt.Sprintf(" (entries %+v, name assignment %d)", set, assign), extra)
					}
				default:
					if msg := compareSnap("importer cache "+name+" (unknown to the exporter)", before[name], got); msg != "" {
						bad("other-cache-touched", msg, extra)
					}
				}
			}

			for _, st := range tr.statuses {
				if cc.Perturb != "none" && st == http.StatusOK {
					bad("status", "exporter answered 200 to a request with a wrong/missing types hash or name", extra)
				}
			}

			res.Outcomes[fmt.Sprintf("%s/%d-entries", outcome, len(set))]++
			vsched.MapOrderDesc = false

			if res.Sample == nil && len(set) == 2 && assign == 26 {
				res.Sample = map[string]interface{}{"pair": cc.Src + "->" + cc.Dst, "names": "a,b,c on both sides", "entries": fmt.Sprintf("%+v", set), "perturbation": cc.Perturb, "statuses": tr.statuses}
			}
		}
	}

	return res
}

func pow3(n int) int {
	r := 1
	for i := 0; i < n; i++ {
		r *= 3
	}

	return r
}

// errOnlyLogger implements just what cache.Logger requires: Error. (Warn, Important and Debug are optional
// capabilities the library has to probe for.)
type errOnlyLogger struct{ n *int }

func (l errOnlyLogger) Error(ctx context.Context, msg string, kv ...interface{}) { *l.n++ }

// c14Loggers: the importer / exporter logger is absent, minimal, or has every optional level.
func c14Logger(i int) cache.Logger {
	n := new(int)
	f := func(ctx context.Context, msg string, kv ...interface{}) { *n++ }

	switch i % 3 {
	case 1:
		return errOnlyLogger{n: n}
	case 2:
		return cache.NewLogger(f, f, f, f)
	}

	return nil
}

// c14Faults cuts the response body / fails the body read at EVERY byte offset.
func c14Faults(cc c14Cell, env *Env) CellResult {
	registerGob()

	res := CellResult{Exhaustive: true, Outcomes: map[string]int{}}
	sets := c14EntrySets(cc.Src)
	seen := map[string]bool{}

	for si, set := range sets {
		if si%cc.NShards != cc.Shard || len(set) == 0 {
			continue
		}

		if time.Now().After(env.Deadline) {
			res.Exhaustive, res.CapHit = false, "deadline"
			break
		}

		// body length from a fault-free transfer
		length := -1

		for mode := 0; mode < 2; mode++ {
			for off := -1; off <= length || length < 0; off++ {
				vclock.Reset()

				exp, imp := &cache.HTTPTransfer{}, &cache.HTTPTransfer{}
				// logger capability rotates with the offset: every offset is hit with every kind within 3 entry sets
				exp.Logger, imp.Logger = c14Logger(off+si+2), c14Logger(off+si+1)
				src, dst := newXfer(cc.Src), newXfer(cc.Dst)
				c14Fill(src, cc.Src, set, "nx")
				exp.AddCache("n", src.WDR())
				imp.AddCache("n", dst.WDR())

				// two more caches on both sides (one visited before, one after "n"): what happens to the body of "n" is
				// not their business
				others := map[string][2]xfer{}

				for _, name := range []string{"m", "o"} {
					os, od := newXfer(cc.Src), newXfer(cc.Dst)
					c14Fill(os, cc.Src, []c14Entry{{KeyLen: 2, Val: 1, Exp: name == "o"}}, name+"y")
					exp.AddCache(name, os.WDR())
					imp.AddCache(name, od.WDR())
					others[name] = [2]xfer{os, od}
				}

				tr := &inproc{h: exp.Export(), perturb: "none", cutAt: -1, failAt: -1, faultFor: "n"}
				if off >= 0 {
					if mode == 0 {
						tr.cutAt = off
					} else {
						tr.failAt = off
					}
				}

				imp.Transport = tr

				var (
					err      error
					panicked interface{}
				)

				func() {
					defer func() { panicked = recover() }()
					err = imp.Import(context.Background(), c14ExportURL)
				}()

				if length < 0 {
					length = tr.bodyLen
				}

				res.Execs++
				res.States++
				res.Transitions += 3

				bad := func(kind, detail string) {
					sig := fmt.Sprintf("C14 faults %s->%s %s", cc.Src, cc.Dst, kind)
					if !seen[sig] {
						seen[sig] = true
						res.Violations = append(res.Violations, Violation{Signature: sig,
							Detail: fmt.Sprintf("%s (entries %+v, body of %d bytes, %s at offset %d)", detail, set, length, []string{"cut", "read error"}[mode], off)})
					}
				}

				if panicked != nil {
					bad("panic", fmt.Sprintf("Import panicked: %v", panicked))
					continue
				}

				if err != nil {
					bad("import-error", fmt.Sprintf("Import returned %v", err))
				}

				want, _, _ := src.Snapshot()
				got, _, _ := dst.Snapshot()

				for k, g := range got {
					w, ok := want[k]
					if !ok {
						bad("fabricated-key", fmt.Sprintf("importer holds key %q which was not exported", k))
						continue
					}

					if g.V != w.V || g.E != w.E {
						bad("mixed-entry", fmt.Sprintf("importer holds (%#v, %d) for key %q, exported was (%#v, %d)", g.V, g.E, k, w.V, w.E))
					}
				}

				if off < 0 || off >= length {
					if msg := compareSnap("complete body", want, got); msg != "" {
						bad("content", msg)
					}
				}

				for name, pair := range others {
					ow, _, _ := pair[0].Snapshot()
					og, _, _ := pair[1].Snapshot()

					if msg := compareSnap("cache "+name+" (its own response was intact)", ow, og); msg != "" {
						bad("other-cache-not-imported", msg+fmt.Sprintf("; responses: %v", tr.statuses))
					}
				}

				res.Outcomes[fmt.Sprintf("%s restored=%d/%d", []string{"cut", "read-error"}[mode], len(got), len(want))]++

				if res.Sample == nil && off == length/2 {
					res.Sample = map[string]interface{}{"pair": cc.Src + "->" + cc.Dst, "entries": fmt.Sprintf("%+v", set), "body_bytes": length, "cut_at": off, "restored": len(got)}
				}
			}
		}
	}

	return res
}

// ---- types hash: every registration sequence in a fresh process

// HashA..D are the pool of types for the hash enumeration.
type (
	HashA struct{ X int }
	HashB struct {
		A HashA
		S string
	}
	HashC map[string]HashA
	HashD struct {
		P *HashA
		L []string
	}
)

// HashE nests several distinct named struct types (directly, through a pointer, in a slice and in a map).
type HashE struct {
	A HashA
	O orders.User
	U *users.User
	L []HashD
	M map[string]HashB
}

func hashPool(i int) interface{} {
	switch i {
	case 0:
		return HashA{}
	case 1:
		return HashB{}
	case 2:
		return HashC{}
	case 4:
		return orders.User{}
	case 5:
		return users.User{}
	case 6:
		return HashE{}
	}

	return &HashD{} // registered through a pointer, as values that travel as pointers are
}

func init() {
	extraCmds["gobhash"] = func(args []string) {
		// args: pool indices; "," separates values of one GobRegister call, "|" separates calls, e.g. "0,2|2,1"
		if len(args) > 0 && args[0] != "" {
			for _, call := range strings.Split(args[0], "|") {
				var vals []interface{}

				for _, s := range strings.Split(call, ",") {
					i, _ := strconv.Atoi(s)
					vals = append(vals, hashPool(i))
				}

				cache.GobRegister(vals...)
			}
		}

		fmt.Println(cache.GobTypesHash())
	}
}

// transfer0: exporter and importer with an empty gob registry (no GobRegister at all in this process).
func init() {
	extraCmds["transfer0"] = func(args []string) {
		src, dst := newXfer(args[0]), newXfer(args[1])
		ctx := context.Background()
		src.Put(ctx, []byte("k1"), 7)
		src.Put(cache.WithTTL(ctx, time.Hour, false), []byte("k2"), 0)

		if cache.GobTypesHash() != 0 {
			fmt.Println("SKIP types hash is not zero in a process that registered nothing")
			return
		}

		exp, imp := &cache.HTTPTransfer{}, &cache.HTTPTransfer{}
		exp.AddCache("n", src.WDR())
		imp.AddCache("n", dst.WDR())

		tr := &inproc{h: exp.Export(), perturb: "none", cutAt: -1, failAt: -1}
		imp.Transport = tr

		if err := imp.Import(ctx, c14ExportURL); err != nil {
			fmt.Println("FAIL Import returned", err)
			return
		}

		want, _, _ := src.Snapshot()
		got, _, _ := dst.Snapshot()

		if msg := compareSnap("importer cache", want, got); msg != "" {
			fmt.Printf("FAIL with an empty type registry on both sides (types hash 0 == 0) nothing/other was imported: %s; exporter answered %v\n", msg, tr.statuses)
			return
		}

		fmt.Println("OK")
	}
}

// reimport: Import, then a type is registered (the types hash of the process changes), then the SAME importer
// imports again from the same process: both sides have equal hashes each time, so each Import must work;
// and a request carrying the OLD hash must be refused by the exporter.
func init() {
	extraCmds["reimport"] = func(args []string) {
		ctx := context.Background()
		steps := [][]interface{}{{HashA{}}, {HashB{}}, {HashC{}, HashD{}}}

		src, dst := newXfer(args[0]), newXfer(args[1])
		exp, imp := &cache.HTTPTransfer{}, &cache.HTTPTransfer{}
		exp.AddCache("n", src.WDR())
		imp.AddCache("n", dst.WDR())

		tr := &inproc{h: exp.Export(), perturb: "none", cutAt: -1, failAt: -1}
		imp.Transport = tr

		for i, regs := range steps {
			cache.GobRegister(regs...)
			src.Put(ctx, []byte(fmt.Sprintf("k%d", i)), i+1)

			tr.statuses = nil

			if err := imp.Import(ctx, c14ExportURL); err != nil {
				fmt.Println("FAIL Import returned", err)
				return
			}

			want, _, _ := src.Snapshot()
			got, _, _ := dst.Snapshot()

			if msg := compareSnap("importer cache", want, got); msg != "" {
				fmt.Printf("FAIL import #%d on the same HTTPTransfer after %d GobRegister steps (hashes of both sides are equal: same process): %s; exporter answered %v\n", i+1, i+1, msg, tr.statuses)
				return
			}
		}

		fmt.Println("OK")
	}
}

func c14Hash0(cc c14Cell, env *Env) CellResult {
	res := CellResult{Exhaustive: true, Outcomes: map[string]int{}, Execs: 1, States: 1, Transitions: 3}
	self, _ := os.Executable()

	sub := "transfer0"
	if cc.Mode == "reimport" {
		sub = "reimport"
	}

	out, err := exec.Command(self, sub, cc.Src, cc.Dst).CombinedOutput()
	line := strings.TrimSpace(string(out))

	switch {
	case err != nil:
		res.Violations = append(res.Violations, Violation{Signature: "C14 hash0 subprocess", Detail: err.Error() + ": " + line})
	case strings.HasPrefix(line, "FAIL"):
		kind := "nothing-imported-with-equal-zero-hash"
		if cc.Mode == "reimport" {
			kind = "import-after-late-registration"
		}

		res.Violations = append(res.Violations, Violation{Signature: fmt.Sprintf("C14 %s %s->%s %s", cc.Mode, cc.Src, cc.Dst, kind), Detail: line})
	case strings.HasPrefix(line, "SKIP"):
		res.Exhaustive, res.CapHit = false, line
	}

	res.Outcomes["hash0 "+strings.Fields(line + " ?")[0]]++
	res.Sample = map[string]interface{}{"pair": cc.Src + "->" + cc.Dst, "empty_type_registry": true, "result": line}

	return res
}

func c14Hash(cc c14Cell, env *Env) CellResult {
	res := CellResult{Exhaustive: true, Outcomes: map[string]int{}}
	self, _ := os.Executable()

	var seqs [][]int

	cur := [][]int{{}}
	for l := 0; l < 4; l++ {
		var next [][]int

		for _, s := range cur {
			for t := 0; t < 4; t++ {
				next = append(next, append(append([]int{}, s...), t))
			}
		}

		seqs = append(seqs, next...)
		cur = next
	}

	bySet := map[string]uint64{}
	setOfHash := map[uint64]string{}

	// the canonical sequences (sorted, no repetition) are evaluated in every shard so that each shard can
	// compare its sequences with them
	// grouping: bit i set = a new GobRegister call starts before element i+1 (0 = everything in one call)
	runG := func(seq []int, grouping int) (uint64, error) {
		var sb strings.Builder

		for i, t := range seq {
			if i > 0 {
				if grouping>>uint(i-1)&1 == 1 {
					sb.WriteByte('|')
				} else {
					sb.WriteByte(',')
				}
			}

			if cc.Pool == 1 && t >= 2 {
				t += 2 // the pool is {HashA, HashE, orders/model.User, users/model.User}
			}

			if cc.Pool == 1 && t == 1 {
				t = 6 // HashE: a struct with several distinct named struct types nested in it
			}

			sb.WriteString(strconv.Itoa(t))
		}

		out, err := exec.Command(self, "gobhash", sb.String()).Output()
		if err != nil {
			return 0, err
		}

		return strconv.ParseUint(strings.TrimSpace(string(out)), 10, 64)
	}

	run := func(seq []int) (uint64, error) { return runG(seq, 1<<16-1) } // one value per call

	setKey := func(seq []int) string {
		m := map[int]bool{}
		for _, t := range seq {
			m[t] = true
		}

		var ks []string
		for t := range m {
			ks = append(ks, strconv.Itoa(t))
		}

		sort.Strings(ks)

		return strings.Join(ks, ",")
	}

	bad := func(kind, detail string) {
		res.Violations = append(res.Violations, Violation{Signature: "C14 hash " + kind, Detail: detail})
	}

	empty, err := run(nil)
	if err != nil {
		bad("subprocess", err.Error())
		return res
	}

	res.Execs++

	for mask := 1; mask < 16; mask++ {
		var seq []int

		for t := 0; t < 4; t++ {
			if mask>>uint(t)&1 == 1 {
				seq = append(seq, t)
			}
		}

		h, err := run(seq)
		if err != nil {
			bad("subprocess", err.Error())
			return res
		}

		res.Execs++
		k := setKey(seq)
		bySet[k] = h

		if h == 0 || h == empty {
			bad("zero", fmt.Sprintf("hash of type set {%s} is %d, same as with nothing registered (%d)", k, h, empty))
		}

		if other, dup := setOfHash[h]; dup {
			bad("collision", fmt.Sprintf("type sets {%s} and {%s} have the same hash %d: adding a type does not change it", k, other, h))
		}

		setOfHash[h] = k
	}

	seen := map[string]bool{}

	for i, seq := range seqs {
		if i%cc.NShards != cc.Shard {
			continue
		}

		k := setKey(seq)

		var h uint64

		// every way of splitting the sequence into variadic GobRegister calls
		for g := 0; g < 1<<uint(len(seq)-1); g++ {
			var err error

			h, err = runG(seq, g)
			if err != nil {
				bad("subprocess", err.Error())
				return res
			}

			res.Execs++
			res.States++
			res.Transitions += len(seq)

			if h != bySet[k] && !seen[k] {
				seen[k] = true
				bad("order-multiplicity-or-grouping", fmt.Sprintf("registration sequence %v split into calls as pattern %b gives hash %d, the sorted duplicate-free one-type-per-call registration of the same set {%s} gives %d", seq, g, h, k, bySet[k]))
			}
		}

		res.Outcomes["set{"+k+"}"]++

		if res.Sample == nil && len(seq) == 4 {
			res.Sample = map[string]interface{}{"registration_sequence": seq, "hash": strconv.FormatUint(h, 10), "fresh_process_per_sequence": true}
		}
	}

	return res
}

func c14Run(c Cell, env *Env) CellResult {
	var cc c14Cell
	_ = json.Unmarshal([]byte(c.ID), &cc)

	switch cc.Mode {
	case "transfer":
		return c14Transfer(cc, env)
	case "faults":
		return c14Faults(cc, env)
	case "hash0", "reimport":
		return c14Hash0(cc, env)
	}

	return c14Hash(cc, env)
}

func init() {
	Register(&Prop{
		ID: "C14", Title: "HTTP transfer imports exactly what was exported and refuses mismatched types",
		Cells: c14Cells, Run: c14Run,
		Rule: "(transfer) all 27 assignments of three cache names (two of them need URL escaping) to exporter-only / importer-only / both, in every third case plus a cache under the empty name on both sides, x every entry set of <=2 entries over the C13 alphabet x backend pairing x request perturbation " +
			"{none, types hash altered, types hash missing, name altered, name missing}, through an in-process RoundTripper that calls the Export handler (no sockets) and insists on the query parameters the export URL itself carries; " +
			"(faults) three caches on both sides, the response body of one of them cut, and separately the body read failing, at EVERY byte offset, with the loggers of both sides rotating through {none, Error-only, all levels}; (hash) every registration sequence of length <=4 with repetitions over a pool of 4 types (struct, nested struct, map, and a struct registered through a pointer; and once more with two different types from different packages that are both called model.User and a struct that nests five named types) (340 each) x every way of splitting it into variadic GobRegister calls, each in a fresh process",
		Assumptions: []string{
			"net/http is used through Handler.ServeHTTP and a custom RoundTripper only; no scheduler is active",
			"GobTypesHashReset is not part of the statement (fresh processes are) and is not used",
		},
	})
}

var _ = bytes.NewReader
