package harness

import (
	"context"
	"errors"
	"io"
	"time"

	"github.com/bool64/cache"

	"verif/vsched"
)

// backend is a uniform view of the three in-memory backends for the sequential harnesses.
// Values are ints (boxed for the interface{} backends, typed for ShardedMapOf[int]).
type backend interface {
	Kind() string
	Read(ctx context.Context, key []byte) (interface{}, error)
	Write(ctx context.Context, key []byte, v interface{}) error
	Delete(ctx context.Context, key []byte) error
	ExpireAll(ctx context.Context)
	DeleteAll(ctx context.Context)
	Len() int
	Walk(fn func(key []byte, v interface{}, expireAt time.Time) error) (int, error)
	HasLoadStore() bool
	Load(key []byte) (interface{}, bool)
	Store(key []byte, v interface{})
	Cleanup()
	Dump(w io.Writer) (int, error)
	Restore(r io.Reader) (int, error)
	Expired(err error) (v interface{}, at time.Time, ok bool)
	Index() *cache.InvalidationIndex
}

var backendKinds = []string{"ShardedMap", "SyncMap", "ShardedMapOf"}

func newBackend(kind string, cfg cache.Config) (b backend) {
	vsched.Construct(func() { b = newBackendRaw(kind, cfg) })
	return b
}

func newBackendRaw(kind string, cfg cache.Config) backend {
	switch kind {
	case "ShardedMap":
		return &bSM{cache.NewShardedMap(cfg.Use)}
	case "SyncMap":
		return &bSY{cache.NewSyncMap(cfg.Use)}
	case "ShardedMapOf":
		return &bOF{cache.NewShardedMapOf[int](cfg.Use)}
	}

	panic("unknown backend " + kind)
}

func expiredIface(err error) (interface{}, time.Time, bool) {
	var e cache.ErrWithExpiredItem
	if errors.As(err, &e) {
		return e.Value(), e.ExpiredAt(), true
	}

	return nil, time.Time{}, false
}

type bSM struct{ c *cache.ShardedMap }

func (b *bSM) Kind() string                                             { return "ShardedMap" }
func (b *bSM) Read(ctx context.Context, k []byte) (interface{}, error)  { return b.c.Read(ctx, k) }
func (b *bSM) Write(ctx context.Context, k []byte, v interface{}) error { return b.c.Write(ctx, k, v) }
func (b *bSM) Delete(ctx context.Context, k []byte) error               { return b.c.Delete(ctx, k) }
func (b *bSM) ExpireAll(ctx context.Context)                            { b.c.ExpireAll(ctx) }
func (b *bSM) DeleteAll(ctx context.Context)                            { b.c.DeleteAll(ctx) }
func (b *bSM) Len() int                                                 { return b.c.Len() }
func (b *bSM) HasLoadStore() bool                                       { return true }
func (b *bSM) Load(k []byte) (interface{}, bool)                        { return b.c.Load(k) }
func (b *bSM) Store(k []byte, v interface{})                            { b.c.Store(k, v) }
func (b *bSM) Cleanup()                                                 { b.c.VerifCleanup() }
func (b *bSM) Dump(w io.Writer) (int, error)                            { return b.c.Dump(w) }
func (b *bSM) Restore(r io.Reader) (int, error)                         { return b.c.Restore(r) }
func (b *bSM) Expired(err error) (interface{}, time.Time, bool)         { return expiredIface(err) }
func (b *bSM) Index() *cache.InvalidationIndex                          { return b.c.InvalidationIndex }
func (b *bSM) Walk(fn func([]byte, interface{}, time.Time) error) (int, error) {
	return b.c.Walk(func(e cache.Entry) error { return fn(e.Key(), e.Value(), e.ExpireAt()) })
}

type bSY struct{ c *cache.SyncMap }

func (b *bSY) Kind() string                                             { return "SyncMap" }
func (b *bSY) Read(ctx context.Context, k []byte) (interface{}, error)  { return b.c.Read(ctx, k) }
func (b *bSY) Write(ctx context.Context, k []byte, v interface{}) error { return b.c.Write(ctx, k, v) }
func (b *bSY) Delete(ctx context.Context, k []byte) error               { return b.c.Delete(ctx, k) }
func (b *bSY) ExpireAll(ctx context.Context)                            { b.c.ExpireAll(ctx) }
func (b *bSY) DeleteAll(ctx context.Context)                            { b.c.DeleteAll(ctx) }
func (b *bSY) Len() int                                                 { return b.c.Len() }
func (b *bSY) HasLoadStore() bool                                       { return false }
func (b *bSY) Load(k []byte) (interface{}, bool)                        { return nil, false }
func (b *bSY) Store(k []byte, v interface{})                            {}
func (b *bSY) Cleanup()                                                 { b.c.VerifCleanup() }
func (b *bSY) Dump(w io.Writer) (int, error)                            { return b.c.Dump(w) }
func (b *bSY) Restore(r io.Reader) (int, error)                         { return b.c.Restore(r) }
func (b *bSY) Expired(err error) (interface{}, time.Time, bool)         { return expiredIface(err) }
func (b *bSY) Index() *cache.InvalidationIndex                          { return b.c.InvalidationIndex }
func (b *bSY) Walk(fn func([]byte, interface{}, time.Time) error) (int, error) {
	return b.c.Walk(func(e cache.Entry) error { return fn(e.Key(), e.Value(), e.ExpireAt()) })
}

type bOF struct{ c *cache.ShardedMapOf[int] }

func (b *bOF) Kind() string { return "ShardedMapOf" }
func (b *bOF) Read(ctx context.Context, k []byte) (interface{}, error) {
	v, err := b.c.Read(ctx, k)
	return v, err
}
func (b *bOF) Write(ctx context.Context, k []byte, v interface{}) error {
	return b.c.Write(ctx, k, v.(int))
}
func (b *bOF) Delete(ctx context.Context, k []byte) error { return b.c.Delete(ctx, k) }
func (b *bOF) ExpireAll(ctx context.Context)              { b.c.ExpireAll(ctx) }
func (b *bOF) DeleteAll(ctx context.Context)              { b.c.DeleteAll(ctx) }
func (b *bOF) Len() int                                   { return b.c.Len() }
func (b *bOF) HasLoadStore() bool                         { return true }
func (b *bOF) Load(k []byte) (interface{}, bool) {
	v, ok := b.c.Load(k)
	return v, ok
}
func (b *bOF) Store(k []byte, v interface{})    { b.c.Store(k, v.(int)) }
func (b *bOF) Cleanup()                         { b.c.VerifCleanup() }
func (b *bOF) Dump(w io.Writer) (int, error)    { return b.c.Dump(w) }
func (b *bOF) Restore(r io.Reader) (int, error) { return b.c.Restore(r) }
func (b *bOF) Index() *cache.InvalidationIndex  { return b.c.InvalidationIndex }
func (b *bOF) Expired(err error) (interface{}, time.Time, bool) {
	var e cache.ErrWithExpiredItemOf[int]
	if errors.As(err, &e) {
		return e.Value(), e.ExpiredAt(), true
	}

	return nil, time.Time{}, false
}
func (b *bOF) Walk(fn func([]byte, interface{}, time.Time) error) (int, error) {
	return b.c.Walk(func(e cache.EntryOf[int]) error { return fn(e.Key(), e.Value(), e.ExpireAt()) })
}
