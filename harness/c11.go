package harness

import (
	"encoding/json"
	"fmt"
	"time"

	"github.com/bool64/cache"

	"verif/ref"
	"verif/vclock"
)

// C11 — the janitor deletes only entries expired longer than DeleteExpiredAfter (DESIGN §C11).

type c11Cell struct {
	Backend string `json:"backend"`
	TTL     string `json:"ttl"`
	DEA     string `json:"dea"` // "24h" | "1m"
	First   int    `json:"first"`
}

func (c c11Cell) id() string { js, _ := json.Marshal(c); return string(js) }

func c11Alphabet(dea time.Duration) []bop {
	var ops []bop

	for k := 0; k < 3; k++ {
		ops = append(ops, bop{name: fmt.Sprintf("Write(k%d)", k), kind: "write", key: k, val: 1})
	}

	ops = append(ops,
		bop{name: "Cleanup", kind: "cleanup"},
		bop{name: "Advance(1m)", kind: "advance", adv: time.Minute},
		bop{name: fmt.Sprintf("Advance(DeleteExpiredAfter+1s=%v)", dea+time.Second), kind: "advance", adv: dea + time.Second},
	)

	for k := 0; k < 3; k++ {
		ops = append(ops, bop{name: fmt.Sprintf("Write(k%d,ttl=+10s)", k), kind: "write", key: k, val: 2, ttl: 10 * time.Second})
	}

	ops = append(ops, bop{name: "ExpireAll", kind: "expireall"})

	return ops
}

func c11Cfg(cc c11Cell) cache.Config {
	cfg := cache.Config{Name: "c11", ExpirationJitter: -1, TimeToLive: 5 * time.Minute}
	if cc.TTL == "unlimited" {
		cfg.TimeToLive = cache.UnlimitedTTL
	}

	cfg.DeleteExpiredAfter = 24 * time.Hour
	if cc.DEA == "1m" {
		cfg.DeleteExpiredAfter = time.Minute
	}

	return cfg
}

func c11Cells(tier string) []Cell {
	var cells []Cell

	for _, b := range backendKinds {
		for _, ttl := range []string{"5m", "unlimited"} {
			for _, dea := range []string{"24h", "1m"} {
				for first := range c11Alphabet(0) {
					cells = append(cells, Cell{ID: c11Cell{Backend: b, TTL: ttl, DEA: dea, First: first}.id()})
				}
			}
		}
	}

	return cells
}

func c11Spec(cc c11Cell, depth int) (SeqSpec, []bop) {
	cfg := c11Cfg(cc)
	ops := c11Alphabet(cfg.DeleteExpiredAfter)
	keys := c07Keys[1:4]

	names := make([]string, len(ops))
	for i, o := range ops {
		names[i] = o.name
	}

	return SeqSpec{
		Ops:   names,
		Depth: depth,
		New: func() interface{} {
			vclock.Reset()

			s := &bstate{b: newBackend(cc.Backend, cfg), m: ref.NewExpMap(cfg.TimeToLive), keys: keys, cfg: cfg}
			if cc.First >= 0 {
				if msg, ok := s.apply(ops[cc.First]); !ok {
					panic("first-op failure: " + msg)
				}
			}

			return s
		},
		Apply: func(s interface{}, op int) (string, bool) { return s.(*bstate).apply(ops[op]) },
		Canon: func(s interface{}) string { return s.(*bstate).m.Canon(vclock.NowQuiet()) },
	}, ops
}

func c11Run(c Cell, env *Env) CellResult {
	var cc c11Cell
	_ = json.Unmarshal([]byte(c.ID), &cc)

	depth := 4
	if env.Thorough() {
		depth = 6
	}

	sp, ops := c11Spec(cc, depth)
	sig := "C11 " + cc.Backend + " ttl=" + cc.TTL

	if env.Replay != nil {
		var seq []int
		_ = json.Unmarshal(env.Replay.Extra, &seq)

		fmt.Printf("cell %s\n  first op: %s\n", c.ID, ops[cc.First].name)

		res := CellResult{}
		if msg, ok := ReplaySeq(sp, seq, true); !ok {
			res.Violations = append(res.Violations, Violation{Signature: sig + " " + classify(msg), Detail: msg})
		}

		return res
	}

	sr := RunSeq(sp, env.Deadline, 6)

	return seqCellResult("C11", sig, sr, ops[cc.First].name)
}

func init() {
	Register(&Prop{
		ID: "C11", Title: "The janitor deletes only entries expired longer than DeleteExpiredAfter",
		Cells: c11Cells, Run: c11Run,
		Rule: "explicit-state BFS over sequences of {Write default TTL, Write per-call TTL 10s, Advance 1m, Advance DeleteExpiredAfter+1s, Cleanup, ExpireAll} on 3 keys, " +
			"for TimeToLive in {5m, Unlimited} x DeleteExpiredAfter in {24h, 1m} x 3 backends; Cleanup is the janitor's own invokeCleanup called through a verif-tagged accessor; " +
			"after every transition Len and a full Walk are compared with the model (removed <=> expiry != never and expiry < now-DeleteExpiredAfter)",
		Assumptions: []string{
			"the janitor goroutine is not started; its cycle is an explicit operation calling the same function, at every position the alphabet allows",
			"no eviction limit configured (eviction is C12's subject)",
			"quick: sequences of 5 operations; thorough: sequences of 7",
		},
	})
}
