package harness

import (
	"context"
	"encoding/json"
	"fmt"
	"os"
	"os/exec"
	"sync/atomic"
	"time"

	"github.com/bool64/cache"

	"verif/ref"
	"verif/vclock"
	"verif/vsched"
)

// C11 — the janitor deletes only entries expired longer than DeleteExpiredAfter (DESIGN §C11).

type c11Cell struct {
	Real    bool   `json:"real,omitempty"` // the real janitor goroutine runs (real timers, virtual clock)
	Conc    bool   `json:"conc,omitempty"` // a cleanup cycle runs concurrently with writes (all schedules)
	Backend string `json:"backend"`
	TTL     string `json:"ttl"`
	DEA     string `json:"dea"` // "24h" | "1m"
	First   int    `json:"first"`
}

func (c c11Cell) id() string { js, _ := json.Marshal(c); return string(js) }

func c11Alphabet(dea time.Duration) []bop {
	var ops []bop

	for k := 0; k < 3; k++ {
		ops = append(ops, bop{name: fmt.Sprintf("Write(k%d)", k), kind: "write", key: k, val: 1})
	}

	ops = append(ops,
		bop{name: "Cleanup", kind: "cleanup"},
		bop{name: "Advance(1m)", kind: "advance", adv: time.Minute},
		bop{name: fmt.Sprintf("Advance(DeleteExpiredAfter+1s=%v)", dea+time.Second), kind: "advance", adv: dea + time.Second},
	)

	for k := 0; k < 3; k++ {
		ops = append(ops, bop{name: fmt.Sprintf("Write(k%d,ttl=+10s)", k), kind: "write", key: k, val: 2, ttl: 10 * time.Second})
	}

	ops = append(ops, bop{name: "ExpireAll", kind: "expireall"})

	// stored as already long expired (the "write an expired value" idiom): due at the next cycle
	ops = append(ops, bop{name: "Write(k0,ttl=-2m)", kind: "write", key: 0, val: 3, ttl: -2 * time.Minute})

	return ops
}

func c11Cfg(cc c11Cell) cache.Config {
	cfg := cache.Config{Name: "c11", ExpirationJitter: -1, TimeToLive: 5 * time.Minute}
	if cc.TTL == "unlimited" {
		cfg.TimeToLive = cache.UnlimitedTTL
	}

	cfg.DeleteExpiredAfter = 24 * time.Hour
	if cc.DEA == "default" {
		cfg.DeleteExpiredAfter = 0 // left unset: the documented default of 24h applies
	}

	if cc.DEA == "1m" || cc.DEA == "1m+sys" || cc.DEA == "1m+count" {
		cfg.DeleteExpiredAfter = time.Minute
	}

	if cc.DEA == "1m+sys" {
		cfg.SysMemSoftLimit = 1 << 62 // configured, never exceeded: "as long as no eviction limit is exceeded"
		cfg.EvictFraction = 1         // a wrongly triggered eviction would remove everything
	}

	if cc.DEA == "1m+count" {
		cfg.CountSoftLimit = 1
		cfg.EvictFraction = 1
	}

	return cfg
}

func c11Cells(tier string) []Cell {
	var cells []Cell

	for _, b := range backendKinds {
		for _, ttl := range []string{"5m", "unlimited"} {
			for _, dea := range []string{"24h", "1m", "1m+sys"} {
				for first := range c11Alphabet(0) {
					cells = append(cells, Cell{ID: c11Cell{Backend: b, TTL: ttl, DEA: dea, First: first}.id()})
				}
			}
		}
	}

	// DeleteExpiredAfter left at its default (24h, whatever the TimeToLive is)
	for _, b := range backendKinds {
		for _, ttl := range []string{"5m", "unlimited"} {
			for first := range c11Alphabet(0) {
				cells = append(cells, Cell{ID: c11Cell{Backend: b, TTL: ttl, DEA: "default", First: first}.id()})
			}
		}
	}

	// CountSoftLimit=1 on three keys: the limit is exceeded only while long-expired entries are still counted, or
	// when two or three keys are kept (then, and only then, the cycle evicts: everything, EvictFraction is 1)
	for _, b := range backendKinds {
		for _, ttl := range []string{"5m", "unlimited"} {
			for first := range c11Alphabet(0) {
				cells = append(cells, Cell{ID: c11Cell{Backend: b, TTL: ttl, DEA: "1m+count", First: first}.id()})
			}
		}
	}

	// A cleanup cycle concurrent with regular operations: whatever the interleaving, it may only remove entries
	// that are long expired at the instant it removes them.
	for _, b := range backendKinds {
		for _, ttl := range []string{"5m", "unlimited"} {
			for prog := 0; prog < 5; prog++ {
				cells = append(cells, Cell{ID: c11Cell{Conc: true, Backend: b, TTL: ttl, DEA: "1m", First: prog}.id()})
			}
		}
	}

	// The janitor goroutine itself, started by the constructor exactly as in production: the cycle is not
	// invoked through the accessor but by the daemon, on whatever object it was started with.
	for _, b := range backendKinds {
		for _, ttl := range []string{"5m", "unlimited"} {
			for hist := 0; hist < 4; hist++ {
				cells = append(cells, Cell{ID: c11Cell{Real: true, Backend: b, TTL: ttl, DEA: "1m", First: hist}.id()})
			}
		}
	}

	return cells
}

// c11Conc: k0 is preloaded long-expired, k1 never-expiring / fresh. One thread runs a cleanup cycle, another
// writes (program 0: fresh Write(k0); 1: Write(k0) then Write(k2); 2: two cleanup threads + Write(k0); 3: DeleteAll next
// to a write of a long-expired entry, then a cycle; 4: a cycle next to a write of another key of the shard).
// After all threads finished, k0 must hold the freshly written value and k1 must still be there.
func c11Conc(cc c11Cell, env *Env) CellResult {
	res := CellResult{Exhaustive: true, Outcomes: map[string]int{}}
	cfg := c11Cfg(cc)
	keys := sameShardKeys()

	var b backend

	body := func() {
		vclock.Reset()
		vclock.AutoTick = true

		b = newBackend(cc.Backend, cfg)
		ctx := context.Background()
		_ = b.Write(cache.WithTTL(ctx, -48*time.Hour, false), keys[0], 0)
		_ = b.Write(ctx, keys[1], 1)

		if cc.First == 3 {
			// program 3: DeleteAll next to a write that stores an already long-expired entry; the cycle that follows
			// must not leave that entry behind (whether DeleteAll took it or not)
			vsched.SpawnThread("deleteall", func() { b.DeleteAll(ctx) })
			vsched.SpawnThread("writer", func() { _ = b.Write(cache.WithTTL(ctx, -2*time.Minute, false), keys[2], 300) })
			vsched.Join()
			b.Cleanup()

			return
		}

		if cc.First == 4 {
			// program 4: a cycle next to a write of ANOTHER key of the same shard: the long-expired k0 is nobody's
			// business but the cycle's, and the cycle has to take it however busy the shard is
			vsched.SpawnThread("cleanup", func() { b.Cleanup() })
			vsched.SpawnThread("writer", func() { _ = b.Write(ctx, keys[2], 200) })
			vsched.Join()

			return
		}

		vsched.SpawnThread("cleanup", func() { b.Cleanup() })

		if cc.First == 2 {
			vsched.SpawnThread("cleanup", func() { b.Cleanup() })
		}

		vsched.SpawnThread("writer", func() {
			_ = b.Write(ctx, keys[0], 100)

			if cc.First == 1 {
				_ = b.Write(ctx, keys[2], 200)
			}
		})

		vsched.Join()
	}

	check := func(r *vsched.Result) []Violation {
		var vs []Violation

		sig := fmt.Sprintf("C11 %s ttl=%s concurrent-cleanup", cc.Backend, cc.TTL)

		if r.Deadlock || r.Panic != nil {
			return []Violation{{Signature: sig + " fatal", Detail: fmt.Sprintf("deadlock=%v panic=%v %s", r.Deadlock, r.Panic, r.PanicStack)}}
		}

		have := map[string]interface{}{}
		_, _ = b.Walk(func(k []byte, v interface{}, at time.Time) error {
			have[string(k)] = v
			return nil
		})

		if cc.First == 3 {
			if _, ok := have[string(keys[2])]; ok {
				vs = append(vs, Violation{Signature: sig + " long-expired-entry-survives", Detail: "an entry stored as long expired while DeleteAll was running is still there after the next cleanup cycle"})
			}

			return vs
		}

		if cc.First == 4 {
			if _, ok := have[string(keys[0])]; ok {
				vs = append(vs, Violation{Signature: sig + " long-expired-entry-survives", Detail: "a cleanup cycle that ran next to a write of another key of the same shard left an entry behind that had been expired for 48h"})
			}

			if _, ok := have[string(keys[1])]; !ok {
				vs = append(vs, Violation{Signature: sig + " live-entry-removed", Detail: "a never-expiring / fresh entry nobody touched was removed by the cycle"})
			}

			if v, ok := have[string(keys[2])]; !ok || v != 200 {
				vs = append(vs, Violation{Signature: sig + " fresh-entry-removed", Detail: "the entry written next to the cycle is gone"})
			}

			return vs
		}

		if v, ok := have[string(keys[0])]; !ok || v != 100 {
			vs = append(vs, Violation{Signature: sig + " fresh-entry-removed", Detail: fmt.Sprintf("after Write(k0) || Cleanup the freshly written entry is %v (present=%v); the cycle may only remove entries expired longer than DeleteExpiredAfter", v, ok)})
		}

		if _, ok := have[string(keys[1])]; !ok {
			vs = append(vs, Violation{Signature: sig + " live-entry-removed", Detail: "a never-expiring / fresh entry nobody touched was removed by the cycle"})
		}

		if cc.First == 1 {
			if _, ok := have[string(keys[2])]; !ok {
				vs = append(vs, Violation{Signature: sig + " fresh-entry-removed", Detail: "a second freshly written entry was removed by the cycle"})
			}
		}

		return vs
	}

	if env.Replay != nil {
		r := vsched.Replay(env.Replay.Choices, body)
		res.Violations = check(r)

		fmt.Print(vsched.FormatTrace(r))

		return res
	}

	seen := map[string]bool{}
	st := vsched.Explore(vsched.Options{PreemptionBound: -1, EnvBound: 0, HBCache: true, MaxExecs: 300000, Deadline: env.Deadline}, body, func(r *vsched.Result) bool {
		for _, v := range check(r) {
			if !seen[v.Signature] {
				seen[v.Signature] = true
				v.Choices = r.Choices()
				mustReproduce(v.Signature, v.Choices, body, check)
				res.Violations = append(res.Violations, v)
			}
		}

		res.Outcomes[fmt.Sprintf("conc prog %d ok", cc.First)]++

		if res.Sample == nil {
			res.Sample = map[string]interface{}{"concurrent_cleanup": true, "program": cc.First, "schedule": r.Choices()}
		}

		return true
	})

	res.Execs, res.Transitions, res.States, res.MaxDepth = st.Execs, st.Transitions, st.HBStates, st.MaxDepth
	if !st.Exhaustive {
		res.Exhaustive, res.CapHit = false, st.CapHit
	}

	return res
}

// c11Real runs one history against the real janitor. Cycles are counted through the EvictionNeeded
// callback (called once per cycle); wall-clock time is only used to wait for the daemon and never decides
// the verdict: if the daemon does not complete 3 cycles within the patience window the cell is inconclusive.
func c11Real(cc c11Cell, env *Env) CellResult {
	// The daemon keeps running on real timers after the history has been judged; it must never coexist with
	// a controlled execution of a later cell in the same worker, so every real-janitor cell runs in a process
	// of its own.
	self, _ := os.Executable()

	out, err := exec.Command(self, "c11real", cc.id()).Output()
	if err != nil {
		return CellResult{Exhaustive: false, CapHit: "real-janitor subprocess failed: " + err.Error(), Execs: 1, States: 1, Transitions: 1}
	}

	var res CellResult
	if err := json.Unmarshal(out, &res); err != nil {
		return CellResult{Exhaustive: false, CapHit: "real-janitor subprocess: bad output: " + err.Error(), Execs: 1, States: 1, Transitions: 1}
	}

	return res
}

func init() {
	extraCmds["c11real"] = func(args []string) {
		var cc c11Cell
		_ = json.Unmarshal([]byte(args[0]), &cc)

		js, _ := json.Marshal(c11RealInProcess(cc))
		fmt.Println(string(js))
	}
}

func c11RealInProcess(cc c11Cell) CellResult {
	res := CellResult{Exhaustive: true, Outcomes: map[string]int{}, Execs: 1, States: 1}

	vclock.Reset()

	var cycles int64

	cfg := c11Cfg(cc)
	cfg.DeleteExpiredJobInterval = time.Millisecond
	cfg.EvictionNeeded = func() bool { atomic.AddInt64(&cycles, 1); return false }

	vsched.RunDaemons = true
	b := newBackend(cc.Backend, cfg)
	vsched.RunDaemons = false

	ctx := context.Background()
	k0, k1, k2 := []byte("never-or-default"), []byte("per-call-ttl"), []byte("expire-all-victim")

	waitCycles := func(n int64) bool {
		start := atomic.LoadInt64(&cycles)
		deadline := time.Now().Add(10 * time.Second)

		for atomic.LoadInt64(&cycles) < start+n {
			if time.Now().After(deadline) {
				return false
			}

			time.Sleep(time.Millisecond)
		}

		return true
	}

	_ = b.Write(ctx, k0, 0)

	var wantGone [][]byte

	switch cc.First {
	case 0: // per-call TTL, long expired when the janitor looks
		_ = b.Write(cache.WithTTL(ctx, 10*time.Second, false), k1, 1)
		wantGone = [][]byte{k1}
	case 1: // a cycle sees the entry while it is still recent, later cycles must still remove it
		_ = b.Write(cache.WithTTL(ctx, 10*time.Second, false), k1, 1)
		vclock.Advance(20 * time.Second)

		if !waitCycles(3) {
			res.Exhaustive, res.CapHit = false, "janitor did not run"
			return res
		}

		wantGone = [][]byte{k1}
	case 2: // ExpireAll instead of a per-call TTL
		_ = b.Write(ctx, k2, 2)
		b.ExpireAll(ctx)
		_ = b.Write(ctx, k0, 0) // k0 written again: fresh / never expiring
		wantGone = [][]byte{k2}
	case 3: // nothing expires: everything must stay
	}

	vclock.Advance(cfg.DeleteExpiredAfter + time.Minute)

	if !waitCycles(3) {
		res.Exhaustive, res.CapHit = false, "janitor did not run 3 cycles within the patience window"
		return res
	}

	res.Transitions = int(atomic.LoadInt64(&cycles))
	sig := fmt.Sprintf("C11 %s ttl=%s real-janitor", cc.Backend, cc.TTL)

	present := func(k []byte) bool {
		found := false
		_, _ = b.Walk(func(key []byte, v interface{}, at time.Time) error {
			if string(key) == string(k) {
				found = true
			}

			return nil
		})

		return found
	}

	for _, k := range wantGone {
		if present(k) {
			res.Violations = append(res.Violations, Violation{Signature: sig + " long-expired-entry-survives",
				Detail: fmt.Sprintf("history %d: entry %q expired more than DeleteExpiredAfter ago is still there after %d janitor cycles", cc.First, k, atomic.LoadInt64(&cycles))})
		}
	}

	// k0 is never-expiring (Unlimited) or still fresh (5m TTL, less than 3 virtual minutes have passed): it must stay
	if !present(k0) {
		res.Violations = append(res.Violations, Violation{Signature: sig + " live-entry-removed", Detail: fmt.Sprintf("history %d: a never-expiring / still fresh entry was removed by the janitor", cc.First)})
	}

	res.Outcomes[fmt.Sprintf("real-janitor history %d ok", cc.First)]++
	res.Sample = map[string]interface{}{"real_janitor": true, "history": cc.First, "cycles_observed": atomic.LoadInt64(&cycles)}

	return res
}

func c11Spec(cc c11Cell, depth int) (SeqSpec, []bop) {
	cfg := c11Cfg(cc)

	// what the model works with: an unset DeleteExpiredAfter means the documented 24h
	eff := cfg
	if eff.DeleteExpiredAfter == 0 {
		eff.DeleteExpiredAfter = 24 * time.Hour
	}

	ops := c11Alphabet(eff.DeleteExpiredAfter)
	keys := c07Keys[1:4]

	names := make([]string, len(ops))
	for i, o := range ops {
		names[i] = o.name
	}

	return SeqSpec{
		Ops:   names,
		Depth: depth,
		New: func() interface{} {
			vclock.Reset()

			s := &bstate{b: newBackend(cc.Backend, cfg), m: ref.NewExpMap(cfg.TimeToLive), keys: keys, cfg: eff}
			if cc.First >= 0 {
				if msg, ok := s.apply(ops[cc.First]); !ok {
					panic("first-op failure: " + msg)
				}
			}

			return s
		},
		Apply: func(s interface{}, op int) (string, bool) { return s.(*bstate).apply(ops[op]) },
		Canon: func(s interface{}) string { return s.(*bstate).m.Canon(vclock.NowQuiet()) },
	}, ops
}

func c11Run(c Cell, env *Env) CellResult {
	var cc c11Cell
	_ = json.Unmarshal([]byte(c.ID), &cc)

	if cc.Real {
		return c11Real(cc, env)
	}

	if cc.Conc {
		return c11Conc(cc, env)
	}

	depth := 4
	if env.Thorough() {
		depth = 6
	}

	sp, ops := c11Spec(cc, depth)
	sig := "C11 " + cc.Backend + " ttl=" + cc.TTL

	if env.Replay != nil {
		var seq []int
		_ = json.Unmarshal(env.Replay.Extra, &seq)

		fmt.Printf("cell %s\n  first op: %s\n", c.ID, ops[cc.First].name)

		res := CellResult{}
		if msg, ok := ReplaySeq(sp, seq, true); !ok {
			res.Violations = append(res.Violations, Violation{Signature: sig + " " + classify(msg), Detail: msg})
		}

		return res
	}

	sr := RunSeq(sp, env.Deadline, 6)

	return seqCellResult("C11", sig, sr, ops[cc.First].name)
}

func init() {
	Register(&Prop{
		ID: "C11", Title: "The janitor deletes only entries expired longer than DeleteExpiredAfter",
		Cells: c11Cells, Run: c11Run,
		Rule: "explicit-state BFS over sequences of {Write default TTL, Write per-call TTL 10s, Write per-call TTL -2m, Advance 1m, Advance DeleteExpiredAfter+1s, Cleanup, ExpireAll} on 3 keys, " +
			"for TimeToLive in {5m, Unlimited} x DeleteExpiredAfter in {24h, left at its default (24h), 1m, 1m with a never exceeded SysMemSoftLimit, 1m with CountSoftLimit 1 (exceeded only by entries the cycle deletes anyway, or by several kept keys: the model then evicts everything)} x 3 backends; Cleanup is the janitor's own invokeCleanup called through a verif-tagged accessor; " +
			"after every transition Len and a full Walk are compared with the model (removed <=> expiry != never and expiry < now-DeleteExpiredAfter)",
		Assumptions: []string{
			"BFS cells: the janitor goroutine is not started; its cycle is an explicit operation calling the same function, at every position the alphabet allows",
			"real-janitor cells: the daemon started by the constructor runs on real timers against the virtual clock; cycles are counted through EvictionNeeded; wall-clock time is only patience (inconclusive, never a violation)",
			"no eviction limit configured (eviction is C12's subject)",
			"quick: sequences of 5 operations; thorough: sequences of 7",
		},
	})
}
