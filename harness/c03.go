package harness

import (
	"context"
	"encoding/json"
	"fmt"
	"strings"
	"time"

	"github.com/bool64/cache"

	"verif/ref"
	"verif/vclock"
	"verif/vsched"
)

// C03 — a lone Get follows the documented stale/failure decision table (DESIGN §C03).

func c03Cells(tier string) []Cell {
	var cells []Cell

	for front := 0; front < len(frontNames); front++ {
		for bits := 0; bits < 64; bits++ {
			for _, init := range []string{"A", "F", "S", "T"} {
				for _, sc := range []string{"o", "f"} {
					c := FCfg{
						Front: front, SU: boolBits(bits, 0), SR: boolBits(bits, 1), FH: boolBits(bits, 2),
						MS: boolBits(bits, 3), FTNeg: boolBits(bits, 4), Init: init, FailC: "0", Script: sc,
						Threads: [][]GOp{{{Key: 0}}},
					}
					if boolBits(bits, 5) {
						c.FailC = "1"
					}

					cells = append(cells, Cell{ID: c.ID()})
				}
			}
		}
	}

	// Sequences: the table cells entered from non-initial states (every sequence of <=4 / <=5 operations).
	for front := 0; front < len(frontNames); front++ {
		for bits := 0; bits < 32; bits++ {
			for _, init := range []string{"A", "S", "T", "F"} {
				c := FCfg{
					Front: front, SU: boolBits(bits, 0), SR: boolBits(bits, 1), FH: boolBits(bits, 2),
					MS: boolBits(bits, 3), FTNeg: boolBits(bits, 4), Init: init, FailC: "0", Tags: []string{"sequences"},
				}

				for first := range c03SeqOps {
					if init != "A" && tier == "quick" && first > 1 && first != 7 {
						continue // quick: preloaded states start with a Get or ExpireAll
					}

					c.Tags = []string{"sequences", fmt.Sprint(first)}
					cells = append(cells, Cell{ID: c.ID()})
				}
			}
		}
	}

	// Negative caching: the cached value is nil (the zero value for the typed front-end). It is a value like any other
	// (appended: the indices of the cells above stay what they were).
	for front := 0; front < len(frontNames); front++ {
		for bits := 0; bits < 64; bits++ {
			for _, init := range []string{"F", "S", "T"} {
				for _, sc := range []string{"o", "f"} {
					c := FCfg{
						Front: front, SU: boolBits(bits, 0), SR: boolBits(bits, 1), FH: boolBits(bits, 2),
						MS: boolBits(bits, 3), FTNeg: boolBits(bits, 4), Init: init, FailC: "0", Script: sc,
						Threads: [][]GOp{{{Key: 0}}}, Tags: []string{"nilpre"},
					}
					if boolBits(bits, 5) {
						c.FailC = "1"
					}

					cells = append(cells, Cell{ID: c.ID()})
				}
			}
		}
	}

	return cells
}

var c03SeqOps = []string{"Get(ok)", "Get(fail)", "Advance(1s)", "Advance(21s>FailedUpdateTTL)", "Advance(61s>UpdateTTL)", "Advance(2m>MaxStaleness)", "Advance(5m1s>TTL)", "ExpireAll", "Get(ok, caller context carries TTL 20m)"}

// c03Sequences enumerates every operation sequence that starts with ops[first].
func c03Sequences(cfg FCfg, env *Env) CellResult {
	res := CellResult{Exhaustive: true, Outcomes: map[string]int{}}

	var first int
	fmt.Sscan(cfg.Tags[1], &first)

	maxLen := 4
	if env.Thorough() {
		maxLen = 5
	}

	front := frontNames[cfg.Front]
	seen := map[string]bool{}

	runSeq := func(seq []int) {
		var (
			h    *fh
			viol []Violation
		)

		m := &ref.FModel{SU: cfg.SU, FH: cfg.FH, MS: cfg.MS, FTNeg: cfg.FTNeg, TTL: backendTTL, UpdateTTL: updateTTL, MaxStale: maxStale, FailTTL: failedTTL}

		bad := func(kind, detail string, st ref.FStep) {
			viol = append(viol, Violation{
				Signature: fmt.Sprintf("C03 %s seq %s state=%c failcached=%v fh=%v build=%v", front, kind, effState(st.In), st.In.FailCached, st.In.FH, st.In.BuildOK),
				Detail:    detail,
			})
		}

		body := func() {
			h = newFH(cfg)

			// the preloaded entry (token "pre", modelled as build index -1), relative to the 10 minutes newFH advanced
			now0 := vclock.NowQuiet()

			switch cfg.Init[0] {
			case 'F':
				m.Has, m.Val, m.Exp = true, -1, now0.Add(50*time.Minute)
			case 'S':
				m.Has, m.Val, m.Exp = true, -1, now0.Add(-10*time.Second)
			case 'T':
				m.Has, m.Val, m.Exp = true, -1, now0.Add(-5*time.Minute)
			}

			tokN := func(t Tok) int {
				if t.O == "pre" {
					return -1
				}

				return t.N
			}

			for _, o := range seq {
				switch o {
				case 0, 1, 8:
					h.cfg.Script = "o"
					if o == 1 {
						h.cfg.Script = "f"
					}

					gctx := context.Background()
					callerTTL := time.Duration(0)

					if o == 8 {
						callerTTL = 20 * time.Minute
						gctx = cache.WithTTL(gctx, callerTTL, false)
					}

					now := vclock.NowQuiet()
					st := m.GetWithTTL(now, o != 1, callerTTL)
					nb := h.nbuild[0]
					// the harness builder numbers invocations itself; make them line up with the model
					key := append([]byte(nil), h.keys[0]...)
					t, isNil, _, err := h.front.Get(gctx, key, h.builder(0))
					vsched.Join()

					got := "?"

					switch {
					case err != nil:
						if te := unwrapTok(err); te != nil && te.N == st.NewIdx && h.nbuild[0] > nb {
							got = ref.RBuildErr
						} else if te != nil {
							got = ref.RCachedErr
						} else {
							got = "other-error(" + err.Error() + ")"
						}
					case isNil:
						got = "zero-value-nil-error"
					case t.O == "b" && t.N == st.NewIdx && h.nbuild[0] > nb:
						got = ref.RNew
					case st.In.State == 'F' && tokN(t) == st.OldVal:
						got = ref.RFresh
					case tokN(t) == st.OldVal:
						got = ref.RStale
					default:
						got = "unexpected-value(" + t.String() + ")"
					}

					ok := false
					for _, w := range st.Out.Results {
						if w == got {
							ok = true
						}
					}

					if !ok {
						bad("result", fmt.Sprintf("Get returned %s, documented: %s", got, strings.Join(st.Out.Results, " or ")), st)
					}

					if h.nbuild[0]-nb != st.Out.Builds {
						bad("builds", fmt.Sprintf("builder invoked %d times, documented: %d", h.nbuild[0]-nb, st.Out.Builds), st)
					}

					// state at quiescence
					pt, pnil, at, found := h.front.Peek(h.keys[0])
					_, fcached := h.front.FailurePeek(h.keys[0])

					if st.Ambiguous {
						// adopt what the implementation did (both readings are documented)
						if found && !pnil {
							m.Has, m.Val, m.Exp = true, tokN(pt), at
						}
					} else {
						if found != m.Has || (found && (pnil || tokN(pt) != m.Val || !at.Equal(m.Exp))) {
							bad("backend", fmt.Sprintf("backend holds (%v nil=%v expiry now%+v found=%v), model: (build #%d expiry now%+v has=%v)",
								pt, pnil, at.Sub(now), found, m.Val, m.Exp.Sub(now), m.Has), st)
						}

						if fcached != m.FailureCached(now) {
							bad("failure-cache", fmt.Sprintf("failure cached=%v, model says %v", fcached, m.FailureCached(now)), st)
						}
					}

					if h.front.KeyLocks() != 0 {
						bad("lock-leak", "key lock held at quiescence", st)
					}
				case 2:
					vclock.Advance(time.Second)
				case 3:
					vclock.Advance(21 * time.Second)
				case 4:
					vclock.Advance(61 * time.Second)
				case 5:
					vclock.Advance(2 * time.Minute)
				case 6:
					vclock.Advance(5*time.Minute + time.Second)
				case 7:
					h.front.ExpireAll()
					m.ExpireAll(vclock.NowQuiet())
				}

				vclock.Advance(time.Millisecond)
			}
		}

		r := vsched.Replay(nil, body)
		res.Execs++
		res.States += len(seq)
		res.Transitions += len(r.Steps)

		var names []string
		for _, o := range seq {
			names = append(names, c03SeqOps[o])
		}

		if r.Deadlock || r.Panic != nil {
			viol = append(viol, Violation{Signature: fmt.Sprintf("C03 %s seq fatal", front), Detail: fmt.Sprintf("deadlock=%v panic=%v %s", r.Deadlock, r.Panic, r.PanicStack)})
		}

		for _, v := range viol {
			if !seen[v.Signature] {
				seen[v.Signature] = true
				v.Detail += "\n  sequence: " + strings.Join(names, "; ") + "\n" + h.formatLog()
				v.Extra, _ = json.Marshal(seq)
				res.Violations = append(res.Violations, v)
			}
		}

		if len(viol) == 0 {
			res.Outcomes[fmt.Sprintf("len%d builds=%d", len(seq), h.nbuild[0])]++

			if res.Sample == nil && len(seq) == maxLen && h.nbuild[0] >= 2 {
				res.Sample = map[string]interface{}{"sequence": names, "builds": h.nbuild[0]}
			}
		}
	}

	if env.Replay != nil {
		var seq []int
		_ = json.Unmarshal(env.Replay.Extra, &seq)
		runSeq(seq)

		return res
	}

	var rec func(seq []int)
	rec = func(seq []int) {
		runSeq(seq)

		if len(seq) == maxLen {
			return
		}

		for o := range c03SeqOps {
			rec(append(append([]int{}, seq...), o))
		}
	}

	rec([]int{first})
	res.MaxDepth = maxLen

	return res
}

// classifyResult maps a Get result to the table's vocabulary.
func classifyResult(h *fh, e FEv) string {
	key := h.names[e.Key]

	if e.Err != nil {
		if te := unwrapTok(e.Err); te != nil && te.K == key {
			if te.N == -1 {
				return ref.RCachedErr
			}

			return ref.RBuildErr
		}

		return "other-error(" + e.Err.Error() + ")"
	}

	if e.Nil {
		if h.nilPre {
			// the cached value itself is nil (negative caching): a value like any other
			switch h.cfg.Init[e.Key] {
			case 'F':
				return ref.RFresh
			case 'S', 'T':
				return ref.RStale
			}
		}

		return "zero-value-nil-error"
	}

	if e.Tok.K != key {
		return "value-of-other-key"
	}

	if e.Tok.O == "b" {
		return ref.RNew
	}

	switch h.cfg.Init[e.Key] {
	case 'F':
		return ref.RFresh
	case 'S', 'T':
		return ref.RStale
	}

	return "fabricated-value"
}

func c03Check(h *fh, r *vsched.Result) []Violation {
	cfg := h.cfg
	in := ref.FIn{
		State: cfg.Init[0], FailCached: cfg.FailC[0] == '1', SU: cfg.SU, FH: cfg.FH, MS: cfg.MS, FTNeg: cfg.FTNeg,
		BuildOK: cfg.Script[0] == 'o',
	}
	want := ref.FailoverTable(in)
	front := frontNames[cfg.Front]
	cellName := fmt.Sprintf("state=%c failcached=%v su=%v fh=%v ms=%v ftneg=%v build=%c", in.State, in.FailCached, in.SU, in.FH, in.MS, in.FTNeg, cfg.Script[0])

	var (
		vs     []Violation
		getEnd *FEv
	)

	for i := range h.log {
		if h.log[i].Kind == "get-end" {
			getEnd = &h.log[i]
		}
	}

	bad := func(kind, detail string) {
		vs = append(vs, Violation{
			Signature: fmt.Sprintf("C03 %s %s state=%c failcached=%v fh=%v build=%c", front, kind, effState(in), in.FailCached, in.FH, cfg.Script[0]),
			Detail:    fmt.Sprintf("cell [%s]: %s", cellName, detail),
		})
	}

	got := classifyResult(h, *getEnd)
	okRes := false

	for _, w := range want.Results {
		if w == got {
			okRes = true
		}
	}

	if !okRes {
		bad("result", fmt.Sprintf("Get returned %s, documented: %s", got, strings.Join(want.Results, " or ")))
	}

	if h.nbuild[0] != want.Builds {
		bad("builds", fmt.Sprintf("builder invoked %d times, documented: %d", h.nbuild[0], want.Builds))
	}

	if want.Builds == 1 && want.Sync && h.nbuild[0] == 1 {
		sync := false

		for _, e := range h.log {
			if e.Kind == "build-end" && e.Seq < getEnd.Seq {
				sync = true
			}
		}

		if !sync {
			bad("not-sync", "Get returned before the builder finished although the documentation says the reader blocks on the build")
		}
	}

	// Backend content at quiescence.
	t, isNil, _, found := h.front.Peek(h.keys[0])
	have := "none"

	switch {
	case found && !isNil && t.O == "b":
		have = "new"
	case found && !isNil && t.O == "pre":
		have = "pre"
	case found && h.nilPre:
		have = "pre"
	case found:
		have = "zero"
	}

	if want.Backend != "" && have != want.Backend {
		bad("backend", fmt.Sprintf("backend holds %q for the key at quiescence, documented: %q", have, want.Backend))
	}

	if want.Failure != "" {
		ferr, has := h.front.FailurePeek(h.keys[0])
		haveF := "none"

		if has {
			if te := unwrapTok(ferr); te != nil && te.N == -1 {
				haveF = "old"
			} else {
				haveF = "new"
			}
		}

		if haveF != want.Failure {
			bad("failure-cache", fmt.Sprintf("failure cache holds %q at quiescence, documented: %q", haveF, want.Failure))
		}
	}

	if n := h.front.KeyLocks(); n != 0 {
		bad("lock-leak", fmt.Sprintf("%d key locks held at quiescence", n))
	}

	return vs
}

func effState(in ref.FIn) byte {
	if in.State == 'T' && !in.MS {
		return 'S'
	}

	return in.State
}

func c03Run(c Cell, env *Env) CellResult {
	cfg := parseFCfg(c.ID)

	if len(cfg.Tags) > 0 && cfg.Tags[0] == "sequences" {
		return c03Sequences(cfg, env)
	}

	in := ref.FIn{State: cfg.Init[0], FailCached: cfg.FailC[0] == '1', FTNeg: cfg.FTNeg, MS: cfg.MS}
	if ref.FailoverTable(in).Unreachable {
		return CellResult{Exhaustive: true, States: 1, Transitions: 1, Outcomes: map[string]int{"unreachable cell (counted, not explored)": 1}}
	}

	opt := vsched.Options{PreemptionBound: -1, EnvBound: 0, HBCache: true}

	res := exploreF(cfg, env, opt, nil, c03Check)

	return res
}

func init() {
	Register(&Prop{
		ID: "C03", Title: "A lone Get follows the documented stale/failure decision table",
		Cells: c03Cells, Run: c03Run,
		Rule: "the complete finite table: entry state {absent,fresh,stale,too stale} x failure cache {empty,hit} x SyncUpdate x SyncRead x FailHard x MaxStaleness {0,1m} x FailedUpdateTTL {default,-1} " +
			"x builder {ok,error} x front-end {Failover+ShardedMap, Failover+SyncMap, FailoverOf+ShardedMapOf}; per cell one Get under the scheduler with ALL schedules of caller and background build; " +
			"oracle ref.FailoverTable written from README bullets 2-7: result, builder invocations, sync/background, backend and failure cache at quiescence; " +
			"plus every sequence of <=4 (quick) / <=5 (thorough) operations over {Get(ok), Get(fail), Get(ok) under a caller TTL of 20m, Advance 1s / 21s / 61s / 2m / 5m1s, ExpireAll} x 32 configurations x 3 front-ends against the sequential model ref.FModel (table + entry/failure state), so that cells are entered from non-initial states",
		Assumptions: []string{
			"two cells are documented ambiguously (stale value present and failure cached): either documented outcome is accepted",
			"MaxStaleness=0 makes 'too stale' coincide with 'stale'",
			"cells that cannot be constructed (failure cache hit with FailedUpdateTTL=-1) are counted as unreachable, not skipped silently",
		},
	})
}
