package harness

import (
	"fmt"
	"strings"

	"verif/ref"
	"verif/vsched"
)

// C03 — a lone Get follows the documented stale/failure decision table (DESIGN §C03).

func c03Cells(tier string) []Cell {
	var cells []Cell

	for front := 0; front < 3; front++ {
		for bits := 0; bits < 64; bits++ {
			for _, init := range []string{"A", "F", "S", "T"} {
				for _, sc := range []string{"o", "f"} {
					c := FCfg{
						Front: front, SU: boolBits(bits, 0), SR: boolBits(bits, 1), FH: boolBits(bits, 2),
						MS: boolBits(bits, 3), FTNeg: boolBits(bits, 4), Init: init, FailC: "0", Script: sc,
						Threads: [][]GOp{{{Key: 0}}},
					}
					if boolBits(bits, 5) {
						c.FailC = "1"
					}

					cells = append(cells, Cell{ID: c.ID()})
				}
			}
		}
	}

	return cells
}

// classifyResult maps a Get result to the table's vocabulary.
func classifyResult(h *fh, e FEv) string {
	key := h.names[e.Key]

	if e.Err != nil {
		if te := unwrapTok(e.Err); te != nil && te.K == key {
			if te.N == -1 {
				return ref.RCachedErr
			}

			return ref.RBuildErr
		}

		return "other-error(" + e.Err.Error() + ")"
	}

	if e.Nil {
		return "zero-value-nil-error"
	}

	if e.Tok.K != key {
		return "value-of-other-key"
	}

	if e.Tok.O == "b" {
		return ref.RNew
	}

	switch h.cfg.Init[e.Key] {
	case 'F':
		return ref.RFresh
	case 'S', 'T':
		return ref.RStale
	}

	return "fabricated-value"
}

func c03Check(h *fh, r *vsched.Result) []Violation {
	cfg := h.cfg
	in := ref.FIn{
		State: cfg.Init[0], FailCached: cfg.FailC[0] == '1', SU: cfg.SU, FH: cfg.FH, MS: cfg.MS, FTNeg: cfg.FTNeg,
		BuildOK: cfg.Script[0] == 'o',
	}
	want := ref.FailoverTable(in)
	front := frontNames[cfg.Front]
	cellName := fmt.Sprintf("state=%c failcached=%v su=%v fh=%v ms=%v ftneg=%v build=%c", in.State, in.FailCached, in.SU, in.FH, in.MS, in.FTNeg, cfg.Script[0])

	var (
		vs     []Violation
		getEnd *FEv
	)

	for i := range h.log {
		if h.log[i].Kind == "get-end" {
			getEnd = &h.log[i]
		}
	}

	bad := func(kind, detail string) {
		vs = append(vs, Violation{
			Signature: fmt.Sprintf("C03 %s %s state=%c failcached=%v fh=%v build=%c", front, kind, effState(in), in.FailCached, in.FH, cfg.Script[0]),
			Detail:    fmt.Sprintf("cell [%s]: %s", cellName, detail),
		})
	}

	got := classifyResult(h, *getEnd)
	okRes := false

	for _, w := range want.Results {
		if w == got {
			okRes = true
		}
	}

	if !okRes {
		bad("result", fmt.Sprintf("Get returned %s, documented: %s", got, strings.Join(want.Results, " or ")))
	}

	if h.nbuild[0] != want.Builds {
		bad("builds", fmt.Sprintf("builder invoked %d times, documented: %d", h.nbuild[0], want.Builds))
	}

	if want.Builds == 1 && want.Sync && h.nbuild[0] == 1 {
		sync := false

		for _, e := range h.log {
			if e.Kind == "build-end" && e.Seq < getEnd.Seq {
				sync = true
			}
		}

		if !sync {
			bad("not-sync", "Get returned before the builder finished although the documentation says the reader blocks on the build")
		}
	}

	// Backend content at quiescence.
	t, isNil, _, found := h.front.Peek(h.keys[0])
	have := "none"

	switch {
	case found && !isNil && t.O == "b":
		have = "new"
	case found && !isNil && t.O == "pre":
		have = "pre"
	case found:
		have = "zero"
	}

	if want.Backend != "" && have != want.Backend {
		bad("backend", fmt.Sprintf("backend holds %q for the key at quiescence, documented: %q", have, want.Backend))
	}

	if want.Failure != "" {
		ferr, has := h.front.FailurePeek(h.keys[0])
		haveF := "none"

		if has {
			if te := unwrapTok(ferr); te != nil && te.N == -1 {
				haveF = "old"
			} else {
				haveF = "new"
			}
		}

		if haveF != want.Failure {
			bad("failure-cache", fmt.Sprintf("failure cache holds %q at quiescence, documented: %q", haveF, want.Failure))
		}
	}

	if n := h.front.KeyLocks(); n != 0 {
		bad("lock-leak", fmt.Sprintf("%d key locks held at quiescence", n))
	}

	return vs
}

func effState(in ref.FIn) byte {
	if in.State == 'T' && !in.MS {
		return 'S'
	}

	return in.State
}

func c03Run(c Cell, env *Env) CellResult {
	cfg := parseFCfg(c.ID)

	in := ref.FIn{State: cfg.Init[0], FailCached: cfg.FailC[0] == '1', FTNeg: cfg.FTNeg, MS: cfg.MS}
	if ref.FailoverTable(in).Unreachable {
		return CellResult{Exhaustive: true, States: 1, Transitions: 1, Outcomes: map[string]int{"unreachable cell (counted, not explored)": 1}}
	}

	opt := vsched.Options{PreemptionBound: -1, EnvBound: 0, HBCache: true}

	res := exploreF(cfg, env, opt, nil, c03Check)

	return res
}

func init() {
	Register(&Prop{
		ID: "C03", Title: "A lone Get follows the documented stale/failure decision table",
		Cells: c03Cells, Run: c03Run,
		Rule: "the complete finite table: entry state {absent,fresh,stale,too stale} x failure cache {empty,hit} x SyncUpdate x SyncRead x FailHard x MaxStaleness {0,1m} x FailedUpdateTTL {default,-1} " +
			"x builder {ok,error} x front-end {Failover+ShardedMap, Failover+SyncMap, FailoverOf+ShardedMapOf}; per cell one Get under the scheduler with ALL schedules of caller and background build; " +
			"oracle ref.FailoverTable written from README bullets 2-7: result, builder invocations, sync/background, backend and failure cache at quiescence",
		Assumptions: []string{
			"two cells are documented ambiguously (stale value present and failure cached): either documented outcome is accepted",
			"MaxStaleness=0 makes 'too stale' coincide with 'stale'",
			"cells that cannot be constructed (failure cache hit with FailedUpdateTTL=-1) are counted as unreachable, not skipped silently",
		},
	})
}
