package harness

import (
	"context"
	"encoding/json"
	"fmt"
	"sort"
	"strings"
	"time"

	"github.com/bool64/cache"

	"verif/ref"
	"verif/vclock"
	"verif/vsched"
)

// C18 — metrics account for every cache event exactly once (DESIGN §C18).

type c18Cell struct {
	Mode    string `json:"mode"` // backend | failover
	Backend string `json:"backend,omitempty"`
	TTL     string `json:"ttl,omitempty"`
	First   int    `json:"first"`
	F       *FCfg  `json:"f,omitempty"`
}

func (c c18Cell) id() string { js, _ := json.Marshal(c); return string(js) }

type recStats struct{ m map[string]float64 }

func (s *recStats) Add(ctx context.Context, name string, v float64, lv ...string) {
	s.m[name+"|"+strings.Join(lv, ",")] += v
}
func (s *recStats) Set(ctx context.Context, name string, v float64, lv ...string) {}

func c18Cells(tier string) []Cell {
	var cells []Cell

	for _, b := range backendKinds {
		for _, ttl := range []string{"5m", "unlimited"} {
			n := len(c07Alphabet(c07Keys[:2], b != "SyncMap"))
			for first := 0; first < n; first++ {
				cells = append(cells, Cell{ID: c18Cell{Mode: "backend", Backend: b, TTL: ttl, First: first}.id()})
			}
		}
	}

	// Cleanup cycles that delete expired entries and evict: they have their own metric (cache_evict) and are no
	// Delete calls.
	for _, b := range backendKinds {
		for strat := 0; strat < 3; strat++ {
			cells = append(cells, Cell{ID: c18Cell{Mode: "backend-evict", Backend: b, First: strat}.id()})
		}
	}

	// Backends under concurrency: DeleteAll / ExpireAll racing with single-key operations.
	for _, b := range backendKinds {
		for batch := 0; batch < 2; batch++ {
			for prog := range c18ConcProgs {
				cells = append(cells, Cell{ID: c18Cell{Mode: "backend-conc", Backend: b, TTL: fmt.Sprint(batch), First: prog}.id()})
			}
		}
	}

	// Failover: the whole C03 table (lone Get) ...
	for front := 0; front < 3; front++ {
		for bits := 0; bits < 64; bits++ {
			for _, init := range []string{"A", "F", "S", "T"} {
				for _, sc := range []string{"o", "f"} {
					c := FCfg{
						Front: front, SU: boolBits(bits, 0), SR: boolBits(bits, 1), FH: boolBits(bits, 2), MS: boolBits(bits, 3),
						FTNeg: boolBits(bits, 4), Init: init, FailC: "0", Script: sc, Threads: [][]GOp{{{Key: 0}}}, Tags: []string{"stats"},
					}
					if boolBits(bits, 5) {
						if c.FTNeg {
							continue
						}

						c.FailC = "1"
					}

					cells = append(cells, Cell{ID: c18Cell{Mode: "failover", F: &c}.id()})
				}
			}
		}
	}

	// ... the same table with one backend call (two in the thorough tier) failing, at every position ...
	for front := 0; front < 3; front++ {
		for bits := 0; bits < 32; bits++ {
			for _, init := range []string{"A", "F", "S", "T"} {
				for _, sc := range []string{"o", "f"} {
					c := FCfg{
						Front: front, SU: boolBits(bits, 0), SR: boolBits(bits, 1), FH: boolBits(bits, 2), MS: boolBits(bits, 3),
						FTNeg: boolBits(bits, 4), Init: init, FailC: "0", Script: sc, Threads: [][]GOp{{{Key: 0}}}, Tags: []string{"stats"},
						Faults: true,
					}
					cells = append(cells, Cell{ID: c18Cell{Mode: "failover", F: &c}.id()})
				}
			}
		}
	}

	// ... and concurrent workloads.
	progs := [][][]GOp{
		{{{Key: 0}, {Key: 0}}, {{Key: 0}}},
		{{{Key: 0}, {Key: 1}}, {{Key: 1, Skip: true}, {Key: 0}}},
	}
	if tier == "thorough" {
		progs = append(progs, [][]GOp{{{Key: 0}, {Key: 0}}, {{Key: 0}, {Key: 1}}, {{Key: 1}, {Key: 0, Skip: true}}})
	}

	for front := 0; front < 3; front++ {
		for bits := 0; bits < 32; bits++ {
			if tier == "quick" && bits&0x18 != 0x08 && bits != 0 && bits != 0x10 {
				continue
			}

			for _, init := range []string{"A", "F", "S", "T"} {
				for _, sc := range []string{"o", "f", "of"} {
					for _, p := range progs {
						c := FCfg{
							Front: front, SU: boolBits(bits, 0), SR: boolBits(bits, 1), FH: boolBits(bits, 2), MS: boolBits(bits, 3),
							FTNeg: boolBits(bits, 4), Init: init + "S", FailC: "00", Script: sc, Threads: p, Tags: []string{"stats"},
						}
						cells = append(cells, Cell{ID: c18Cell{Mode: "failover", F: &c}.id()})
					}
				}
			}
		}
	}

	// ... and with ObserveMutability switched on (builds that return a new or the same value): the option adds its own
	// metric and must leave all the others alone (appended: the indices of the cells above stay what they were)
	for front := 0; front < 3; front++ {
		for bits := 0; bits < 32; bits++ {
			for _, init := range []string{"A", "F", "S", "T"} {
				for _, sc := range []string{"o", "s"} {
					c := FCfg{
						Front: front, SU: boolBits(bits, 0), SR: boolBits(bits, 1), FH: boolBits(bits, 2), MS: boolBits(bits, 3),
						FTNeg: boolBits(bits, 4), Init: init, FailC: "0", Script: sc, Threads: [][]GOp{{{Key: 0}}}, Tags: []string{"stats"}, ObsMut: true,
					}

					cells = append(cells, Cell{ID: c18Cell{Mode: "failover", F: &c}.id()})
				}
			}
		}
	}

	return cells
}

// ---- backend part: C07's alphabet with a recording tracker, counters compared after every operation

type c18state struct {
	*bstate
	st   *recStats
	want map[string]float64
}

func (s *c18state) apply(o bop) (string, bool) {
	now := vclock.NowQuiet()
	key := ""

	if o.key < len(s.keys) {
		key = string(s.keys[o.key])
	}

	// expected metric increments, derived from the model BEFORE the operation
	switch o.kind {
	case "read", "load":
		_, stt, _ := s.m.Read(key, now, false)
		s.want[map[ref.Status]string{ref.Hit: cache.MetricHit, ref.NotFound: cache.MetricMiss, ref.Expired: cache.MetricExpired}[stt]]++
	case "write", "store":
		s.want[cache.MetricWrite]++
	case "delete":
		if _, ok := s.m.M[key]; ok {
			s.want[cache.MetricDelete]++
		}
	case "deleteall":
		s.want[cache.MetricDelete] += float64(len(s.m.M))
	case "expireall":
		s.want[cache.MetricExpired] += float64(len(s.m.M))
	}

	obs, ok := s.bstate.apply(o)
	if !ok {
		return obs, false
	}

	for _, m := range []string{cache.MetricHit, cache.MetricMiss, cache.MetricExpired, cache.MetricWrite, cache.MetricDelete} {
		got := s.st.m[m+"|name,c18"]
		if got != s.want[m] {
			return fmt.Sprintf("after %s: metric %s differs from the operation log: tracker has %v, expected %v", o.name, m, got, s.want[m]), false
		}
	}

	for k := range s.st.m {
		if !strings.HasSuffix(k, "|name,c18") {
			return fmt.Sprintf("after %s: metric with unexpected labels: %s", o.name, k), false
		}
	}

	return obs, true
}

func c18Backend(cc c18Cell, env *Env) CellResult {
	keys := c07Keys[1:3]
	ops := c07Alphabet(keys, cc.Backend != "SyncMap")

	depth := 3
	if env.Thorough() {
		depth = 4
	}

	names := make([]string, len(ops))
	for i, o := range ops {
		names[i] = o.name
	}

	mk := func(first int) *c18state {
		vclock.Reset()

		st := &recStats{m: map[string]float64{}}
		cfg := cache.Config{Name: "c18", ExpirationJitter: -1, TimeToLive: 5 * time.Minute, Stats: st}

		if cc.TTL == "unlimited" {
			cfg.TimeToLive = cache.UnlimitedTTL
		}

		return &c18state{bstate: &bstate{b: newBackend(cc.Backend, cfg), m: ref.NewExpMap(cfg.TimeToLive), keys: keys, cfg: cfg}, st: st, want: map[string]float64{}}
	}

	s0 := mk(-1)
	if msg, ok := s0.apply(ops[cc.First]); !ok {
		return CellResult{Exhaustive: true, Execs: 1, States: 1, Transitions: 1, Violations: []Violation{{Signature: "C18 " + cc.Backend + " " + classify(msg), Detail: msg + "\n  sequence: " + ops[cc.First].name}}}
	}

	sp := SeqSpec{
		Ops: names, Depth: depth,
		New: func() interface{} {
			s := mk(cc.First)
			if msg, ok := s.apply(ops[cc.First]); !ok {
				panic(msg)
			}

			return s
		},
		Apply: func(s interface{}, op int) (string, bool) { return s.(*c18state).apply(ops[op]) },
		Canon: func(s interface{}) string { return s.(*c18state).m.Canon(vclock.NowQuiet()) },
	}

	if env.Replay != nil {
		var seq []int
		_ = json.Unmarshal(env.Replay.Extra, &seq)

		res := CellResult{}
		if msg, ok := ReplaySeq(sp, seq, true); !ok {
			res.Violations = append(res.Violations, Violation{Signature: "C18 " + cc.Backend + " " + classify(msg), Detail: msg})
		}

		return res
	}

	sr := RunSeq(sp, env.Deadline, 6)

	return seqCellResult("C18", "C18 "+cc.Backend, sr, ops[cc.First].name)
}

// c18ConcProgs: what the second thread does next to DeleteAll (batch 0) / ExpireAll (batch 1).
// 0 = Write(new key), 1 = Delete(k0), 2 = Read(k0).
var c18ConcProgs = [][]int{{0}, {1}, {0, 1}, {2}, {0, 2}, {1, 0}}

func c18BackendConc(cc c18Cell, env *Env) CellResult {
	res := CellResult{Exhaustive: true, Outcomes: map[string]int{}}
	prog := c18ConcProgs[cc.First]
	keys := sameShardKeys()
	batch := "DeleteAll"

	if cc.TTL == "1" {
		batch = "ExpireAll"
	}

	var (
		b       backend
		st      *recStats
		writes  int
		delOK   int
		reads   int
		initial = 2
	)

	body := func() {
		vclock.Reset()
		vclock.AutoTick = true

		st = &recStats{m: map[string]float64{}}
		b = newBackend(cc.Backend, cache.Config{Name: "c18", ExpirationJitter: -1, TimeToLive: 5 * time.Minute, Stats: st})
		ctx := context.Background()
		writes, delOK, reads = 0, 0, 0
		_ = b.Write(ctx, keys[0], 0)
		_ = b.Write(ctx, keys[1], 1)

		vsched.SpawnThread(batch, func() {
			if batch == "DeleteAll" {
				b.DeleteAll(ctx)
			} else {
				b.ExpireAll(ctx)
			}
		})
		vsched.SpawnThread("ops", func() {
			for _, o := range prog {
				switch o {
				case 0:
					_ = b.Write(ctx, keys[2], 2)
					writes++
				case 1:
					if b.Delete(ctx, keys[0]) == nil {
						delOK++
					}
				case 2:
					_, _ = b.Read(ctx, keys[0])
					reads++
				}
			}
		})
		vsched.Join()
	}

	check := func(r *vsched.Result) []Violation {
		sig := fmt.Sprintf("C18 %s concurrent %s", cc.Backend, batch)

		if r.Deadlock || r.Panic != nil {
			return []Violation{{Signature: sig + " fatal", Detail: fmt.Sprintf("deadlock=%v panic=%v %s", r.Deadlock, r.Panic, r.PanicStack)}}
		}

		var vs []Violation

		get := func(m string) float64 { return st.m[m+"|name,c18"] }
		removed := float64(initial + writes - b.Len())

		if get(cache.MetricDelete) != removed {
			vs = append(vs, Violation{Signature: sig + " cache_delete", Detail: fmt.Sprintf("cache_delete=%v but %v entries were actually removed (%d initial + %d written to a new key - %d left; %d successful Delete calls)", get(cache.MetricDelete), removed, initial, writes, b.Len(), delOK)})
		}

		if get(cache.MetricWrite) != float64(initial+writes) {
			vs = append(vs, Violation{Signature: sig + " cache_write", Detail: fmt.Sprintf("cache_write=%v, writes issued %d", get(cache.MetricWrite), initial+writes)})
		}

		rd := get(cache.MetricHit) + get(cache.MetricMiss) + get(cache.MetricExpired)
		if batch == "DeleteAll" && rd != float64(reads) {
			vs = append(vs, Violation{Signature: sig + " read-metrics", Detail: fmt.Sprintf("hit+miss+expired=%v, reads issued %d", rd, reads)})
		}

		return vs
	}

	if env.Replay != nil {
		r := vsched.Replay(env.Replay.Choices, body)
		res.Violations = check(r)

		fmt.Print(vsched.FormatTrace(r))

		return res
	}

	seen := map[string]bool{}
	stt := vsched.Explore(vsched.Options{PreemptionBound: -1, EnvBound: 0, HBCache: true, MaxExecs: 300000, Deadline: env.Deadline}, body, func(r *vsched.Result) bool {
		for _, v := range check(r) {
			if !seen[v.Signature] {
				seen[v.Signature] = true
				v.Choices = r.Choices()
				mustReproduce(v.Signature, v.Choices, body, check)
				v.Detail += fmt.Sprintf("\n  program: %s || %v (0=Write new key, 1=Delete k0, 2=Read k0)", batch, prog)
				res.Violations = append(res.Violations, v)
			}
		}

		res.Outcomes[fmt.Sprintf("%s left=%d", batch, b.Len())]++

		if res.Sample == nil {
			res.Sample = map[string]interface{}{"backend_concurrent": batch, "program": prog, "schedule": r.Choices()}
		}

		return true
	})

	res.Execs, res.Transitions, res.States, res.MaxDepth = stt.Execs, stt.Transitions, stt.HBStates, stt.MaxDepth
	if !stt.Exhaustive {
		res.Exhaustive, res.CapHit = false, stt.CapHit
	}

	return res
}

// ---- failover part

func c18Failover(cfg FCfg, env *Env) CellResult {
	opt := vsched.Options{PreemptionBound: 2, EnvBound: 0, HBCache: true}
	if len(cfg.Threads) == 1 {
		opt = vsched.Options{PreemptionBound: -1, EnvBound: 0, HBCache: true}

		if cfg.Faults {
			opt.EnvBound = 1

			if env.Thorough() {
				opt.EnvBound = 2
			}
		}
	} else if env.Thorough() {
		opt = vsched.Options{PreemptionBound: 3, EnvBound: 0, HBCache: true, MaxExecs: 300000}
	}

	front := frontNames[cfg.Front]

	var base map[string]float64

	post := func(h *fh) {}
	_ = post

	return exploreFBase(cfg, env, opt, func(h *fh) {
		base = map[string]float64{}
		for k, v := range h.stats {
			base[k] = v
		}
	}, func(h *fh, r *vsched.Result) []Violation {
		var vs []Violation

		got := func(metric, name string) float64 {
			k := metric + "|name," + name
			return h.stats[k] - base[k]
		}

		var reads, writes, refreshes, builds, failed float64

		for _, e := range h.log {
			switch e.Kind {
			case "read":
				if !e.Ctx.Skip {
					reads++
				}
			case "write":
				writes++

				if e.TTL == updateTTL && e.Tok.O != "b" || (e.TTL == updateTTL && isRefreshOf(h, e)) {
					refreshes++
				}
			case "fault":
				// a re-store of the stale value that the backend rejects is counted when attempted (the metric is
				// emitted before the write); nothing else is counted for a rejected call
				if e.Name == "write" && e.TTL == updateTTL && (e.Tok.O != "b" || isRefreshOf(h, e)) {
					refreshes++
				}
			case "build-end":
				builds++

				if e.Err != nil {
					failed++
				}
			}
		}

		cmp := func(what string, have, want float64) {
			if have != want {
				vs = append(vs, Violation{Signature: fmt.Sprintf("C18 %s %s", front, what),
					Detail: fmt.Sprintf("%s: tracker has %v, the harness log says %v", what, have, want)})
			}
		}

		cmp("hit+miss+expired(backend)", got(cache.MetricHit, "c")+got(cache.MetricMiss, "c")+got(cache.MetricExpired, "c"), reads)
		cmp("cache_write(backend)", got(cache.MetricWrite, "c"), writes)
		cmp("cache_build", got(cache.MetricBuild, "c"), builds)
		cmp("cache_failed", got(cache.MetricFailed, "c"), failed)
		cmp("cache_refreshed", got(cache.MetricRefreshed, "c"), refreshes)
		cmp("cache_delete(backend)", got(cache.MetricDelete, "c"), 0)

		if !cfg.FTNeg {
			cmp("cache_write(failure cache)", got(cache.MetricWrite, "err_c"), failed)
		}

		return vs
	})
}

// isRefreshOf tells whether the write event re-stores a token that had been stored before (stale refresh).
func isRefreshOf(h *fh, w FEv) bool {
	for _, e := range h.log {
		if e.Seq >= w.Seq {
			break
		}

		if e.Kind == "write" && e.Tok == w.Tok && e.Key == w.Key {
			return true
		}
	}

	return false
}

// exploreFBase is exploreF with a hook that runs right after the scenario has been constructed.
func exploreFBase(cfg FCfg, env *Env, opt vsched.Options, afterSetup func(h *fh), check func(h *fh, r *vsched.Result) []Violation) CellResult {
	setupHook = afterSetup
	defer func() { setupHook = nil }()

	return exploreF(cfg, env, opt, nil, check)
}

// c18BackendEvict: sizes 0..7 x count limit {2,4} x fraction {0.5,1} x {no expired entries, two long-expired ones},
// one cleanup cycle: what the cycle removes shows up in cache_evict (evictions) and nowhere else.
func c18BackendEvict(cc c18Cell, env *Env) CellResult {
	res := CellResult{Exhaustive: true, Outcomes: map[string]int{}}
	seen := map[string]bool{}
	ctx := context.Background()

	for n := 0; n <= 7; n++ {
		for _, limit := range []uint64{2, 4} {
			for _, frac := range []float64{0.5, 1} {
				for _, expired := range []int{0, 2} {
					vclock.Reset()

					st := &recStats{m: map[string]float64{}}
					cfg := cache.Config{Name: "c18e", ExpirationJitter: -1, TimeToLive: time.Hour, DeleteExpiredAfter: time.Minute,
						CountSoftLimit: limit, EvictFraction: frac, EvictionStrategy: cache.EvictionStrategy(cc.First), Stats: st}
					b := newBackend(cc.Backend, cfg)

					for i := 0; i < n; i++ {
						wctx := ctx
						if i < expired {
							wctx = cache.WithTTL(ctx, -time.Hour, false) // long expired: the cycle's delete-expired step takes it
						}

						_ = b.Write(wctx, []byte(fmt.Sprintf("ek-%d", i)), i)
						vclock.Advance(time.Second)
					}

					for i := expired; i < n; i += 2 {
						_, _ = b.Read(ctx, []byte(fmt.Sprintf("ek-%d", i)))
					}

					before := map[string]float64{}
					for k, v := range st.m {
						before[k] = v
					}

					lenBefore := b.Len()
					b.Cleanup()
					removed := lenBefore - b.Len()

					nexp := expired
					if nexp > n {
						nexp = n
					}

					res.Execs++
					res.States++
					res.Transitions += n + 2

					delta := func(metric string) float64 {
						k := metric + "|name,c18e"
						return st.m[k] - before[k]
					}

					bad := func(kind, detail string) {
						sig := fmt.Sprintf("C18 %s cleanup-cycle %s", cc.Backend, kind)
						if !seen[sig] {
							seen[sig] = true
							res.Violations = append(res.Violations, Violation{Signature: sig,
								Detail: fmt.Sprintf("%s (%d entries of which %d long expired, CountSoftLimit %d, EvictFraction %v, strategy %s)", detail, n, nexp, limit, frac, strategyNames[cc.First])})
						}
					}

					if d := delta(cache.MetricDelete); d != 0 {
						bad("cache_delete", fmt.Sprintf("cache_delete grew by %v during a cleanup cycle: nothing was removed by Delete/DeleteAll", d))
					}

					if d := delta(cache.MetricEvict); int(d) != removed-nexp {
						bad("cache_evict", fmt.Sprintf("cache_evict grew by %v, the cycle removed %d entries of which %d by the delete-expired step", d, removed, nexp))
					}

					for _, m := range []string{cache.MetricWrite, cache.MetricHit, cache.MetricMiss, cache.MetricExpired} {
						if d := delta(m); d != 0 {
							bad(m, fmt.Sprintf("%s grew by %v during a cleanup cycle", m, d))
						}
					}

					res.Outcomes[fmt.Sprintf("cycle removed=%d expired=%d", removed, nexp)]++
				}
			}
		}
	}

	res.Sample = map[string]interface{}{"backend": cc.Backend, "strategy": strategyNames[cc.First], "sizes": "0..7", "limits": []int{2, 4}, "fractions": []float64{0.5, 1}}

	return res
}

func c18Run(c Cell, env *Env) CellResult {
	var cc c18Cell
	_ = json.Unmarshal([]byte(c.ID), &cc)

	if cc.Mode == "backend" {
		return c18Backend(cc, env)
	}

	if cc.Mode == "backend-conc" {
		return c18BackendConc(cc, env)
	}

	if cc.Mode == "backend-evict" {
		return c18BackendEvict(cc, env)
	}

	return c18Failover(*cc.F, env)
}

func init() {
	Register(&Prop{
		ID: "C18", Title: "Metrics account for every cache event exactly once",
		Cells: c18Cells, Run: c18Run,
		Rule: "(backends) BFS over C07's operation alphabet with a recording StatsTracker: after EVERY transition hit/miss/expired/write/delete totals equal the counts derived from the reference model; " +
			"(backends, concurrent) DeleteAll / ExpireAll next to Write(new key) / Delete / Read programs, all schedules: cache_delete equals the entries actually removed, cache_write the writes, read metrics the reads; " +
			"(backends, cleanup) a cycle that deletes expired entries and evicts (sizes 0..7 x limit x fraction x strategy): cache_evict equals the evictions, cache_delete and the read/write metrics do not move; " +
			"(Failover, lone Get) the whole decision table of C03 x 3 front-ends, all schedules; (Failover, concurrent) 2-3 Get threads on two keys incl. SkipRead, all schedules within the bound; " +
			"at quiescence hit+miss+expired = non-skipped backend reads, cache_write = backend writes, cache_build / cache_failed = builder invocations / failures, cache_refreshed = stale re-stores, failure-cache writes = failures (the lone-Get table also with ObserveMutability on)",
		Assumptions: []string{
			"no fault injection: an injected write failure would make 'number of writes' ambiguous",
			"reads of the internal failure cache are not observable from outside Failover; only its writes are accounted",
			"gauge cache_items comes from a daemon goroutine that is not started",
		},
	})
}

var _ = sort.Strings
