package harness

import (
	"context"
	"encoding/json"
	"errors"
	"fmt"
	"strings"
	"time"

	"github.com/anishathalye/porcupine"
	"github.com/bool64/cache"
	"github.com/cespare/xxhash/v2"

	"verif/vclock"
	"verif/vsched"
)

// C08 — per-key linearizability of backends under concurrent use (DESIGN §C08).

type c08Cell struct {
	Backend  string `json:"backend"`
	Batch    string `json:"batch"`            // none | expireall | deleteall | cleanup | evict | walk
	Spread   bool   `json:"spread,omitempty"` // k0 lives in the last shard, k1 in the first, the untouched k2 in the second (default: all three in one shard)
	Strategy int    `json:"strategy"`
	A        []int  `json:"a"`              // thread A program (op indices)
	NB       int    `json:"nb"`             // length of thread B programs enumerated inside the cell
	C        bool   `json:"c,omitempty"`    // a third single-op thread is enumerated too
	Unb      bool   `json:"unb,omitempty"`  // all interleavings (unbounded, HB cached) instead of preemption bound 2
	Unl      bool   `json:"unl,omitempty"`  // the cache is configured with UnlimitedTTL (entries never expire on their own)
	Coll     bool   `json:"coll,omitempty"` // k0 and k1 have the SAME 64-bit hash (slot model, shared with C09)
}

func (c c08Cell) id() string { js, _ := json.Marshal(c); return string(js) }

var c08Ops = []string{"W0", "W1", "R0", "R1", "D0", "D1"}

func c08Progs(maxLen int) [][]int {
	var res [][]int

	cur := [][]int{{}}
	for l := 0; l < maxLen; l++ {
		var next [][]int

		for _, p := range cur {
			for o := range c08Ops {
				next = append(next, append(append([]int{}, p...), o))
			}
		}

		res = append(res, next...)
		cur = next
	}

	return res
}

func c08Cells(tier string) []Cell {
	var cells []Cell

	type bs struct {
		batch string
		strat int
	}

	batches := []bs{{"none", 0}, {"expireall", 0}, {"deleteall", 0}, {"cleanup", 0}, {"evict", 0}, {"evict", 1}, {"evict", 2}, {"walk", 0}, {"walk", 1}, {"walkfail", 0},
		// LRU / LFU keep a serve counter per entry, which Write, ExpireAll and the delete-expired job have to carry along
		{"expireall", 1}, {"expireall", 2}, {"cleanup", 1}, {"cleanup", 2}}

	for _, b := range backendKinds {
		for _, bt := range batches {
			for _, a := range c08Progs(2) {
				c := c08Cell{Backend: b, Batch: bt.batch, Strategy: bt.strat, A: a, NB: 1}
				if tier == "thorough" {
					// the quick programs with ALL interleavings ...
					u := c
					u.Unb = true
					cells = append(cells, Cell{ID: u.id()})

					// ... and longer second threads (1-2 operations), plus a third single-operation thread next to
					// single-operation first threads, within preemption bound 2
					c.NB = 2
					c.C = len(a) == 1
				}

				cells = append(cells, Cell{ID: c.id()})
			}
		}
	}

	// UnlimitedTTL configuration: ExpireAll must act on never-expiring entries too, the delete-expired job only on
	// the entry that got a per-call TTL (appended so that the indices of the older cells stay what they were)
	for _, b := range backendKinds {
		for _, bt := range []string{"expireall", "cleanup"} {
			for _, a := range c08Progs(2) {
				cells = append(cells, Cell{ID: c08Cell{Backend: b, Batch: bt, A: a, NB: 1, Unl: true, Unb: tier == "thorough"}.id()})
			}
		}
	}

	// Keys in different shards (k0 in the last one): a batch operation is a loop over shards, whatever it decides
	// before or during the loop must hold for the shards it has not reached yet
	for _, b := range backendKinds {
		for _, bt := range []string{"deleteall", "expireall", "cleanup"} {
			for _, a := range c08Progs(2) {
				cells = append(cells, Cell{ID: c08Cell{Backend: b, Batch: bt, A: a, NB: 1, Spread: true, Unb: tier == "thorough"}.id()})
			}
		}
	}

	// Two batch operations next to each other (and next to the clients): each still acts on every key at one instant
	for _, b := range backendKinds {
		for _, bt := range []string{"deleteall+expireall", "deleteall+cleanup", "expireall+cleanup"} {
			for _, a := range c08Progs(1) {
				cells = append(cells, Cell{ID: c08Cell{Backend: b, Batch: bt, A: a, NB: 1, Unb: tier == "thorough"}.id()})
			}
		}
	}

	// The hash-colliding part of the key set: two different keys with the same xxhash64, all schedules of the small
	// programs, per-slot linearizability (an operation affects its own key only; a write may displace the other key).
	for _, b := range backendKinds {
		for _, a := range c08Progs(2) {
			cells = append(cells, Cell{ID: c08Cell{Backend: b, Batch: "none", A: a, NB: 1, Coll: true}.id()})
		}
	}

	return cells
}

// sameShardKeys returns three keys whose xxhash64 falls into the same shard (different hashes).
func sameShardKeys() [][]byte {
	var keys [][]byte

	want := -1

	for i := 0; len(keys) < 3; i++ {
		k := []byte(fmt.Sprintf("lin-%04d", i))
		sh := int(xxhash.Sum64(k) % cache.VerifShards)

		if want < 0 {
			want = sh
		}

		if sh == want {
			keys = append(keys, k)
		}
	}

	return keys
}

// spreadKeys returns three keys in different shards: the LAST shard, the first and the second one.
func spreadKeys() [][]byte {
	n := int(cache.VerifShards)
	want := []int{n - 1, 0, 1}
	keys := make([][]byte, 3)

	for i := 0; keys[0] == nil || keys[1] == nil || keys[2] == nil; i++ {
		k := []byte(fmt.Sprintf("lin-%04d", i))
		sh := int(xxhash.Sum64(k) % cache.VerifShards)

		for j, w := range want {
			if sh == w && keys[j] == nil {
				keys[j] = k
			}
		}
	}

	return keys
}

type regState struct {
	Present bool
	Val     int
	Exp     bool
	Long    bool // expired longer than DeleteExpiredAfter (eligible for the delete-expired job)
}

type regIn struct {
	Op  string
	Val int
}

type regOut struct {
	Kind string
	Val  int
}

func regModel(init regState) porcupine.Model {
	nm := porcupine.NondeterministicModel{
		Init: func() []interface{} { return []interface{}{init} },
		Step: func(state, input, output interface{}) []interface{} {
			s := state.(regState)
			in := input.(regIn)
			out, _ := output.(regOut)

			switch in.Op {
			case "write":
				return []interface{}{regState{Present: true, Val: in.Val}}
			case "read":
				switch out.Kind {
				case "hit":
					if s.Present && !s.Exp && s.Val == out.Val {
						return []interface{}{s}
					}
				case "miss":
					if !s.Present {
						return []interface{}{s}
					}
				case "expired":
					if s.Present && s.Exp && s.Val == out.Val {
						return []interface{}{s}
					}
				}

				return nil
			case "delete":
				if out.Kind == "found" && s.Present {
					return []interface{}{regState{}}
				}

				if out.Kind == "notfound" && !s.Present {
					return []interface{}{s}
				}

				return nil
			case "expire":
				if s.Present {
					return []interface{}{regState{Present: true, Val: s.Val, Exp: true}}
				}

				return []interface{}{s}
			case "deleteall":
				return []interface{}{regState{}}
			case "cleanup":
				if s.Present && s.Long {
					return []interface{}{regState{}}
				}

				return []interface{}{s}
			case "evict":
				return []interface{}{regState{}, s}
			case "walk-saw":
				if s.Present && s.Val == out.Val {
					return []interface{}{s}
				}

				return nil
			}

			return nil
		},
		DescribeOperation: func(in, out interface{}) string { return fmt.Sprintf("%v -> %v", in, out) },
	}

	return nm.ToModel()
}

type c08Ev struct {
	key       int
	in        regIn
	out       regOut
	call, ret int64
	client    int
}

type c08h struct {
	b     backend
	keys  [][]byte
	tick  int64
	evs   []c08Ev
	nextV int
	walks [][]string // per walk: keys reported
	bad   []string
}

func (h *c08h) now() int64 { h.tick++; return h.tick }

func (h *c08h) do(client, op int) {
	ctx := context.Background()
	key := op % 2
	e := c08Ev{key: key, client: client}

	switch op / 2 {
	case 0:
		h.nextV++
		v := h.nextV
		e.in = regIn{Op: "write", Val: v}
		e.call = h.now()
		_ = h.b.Write(ctx, h.keys[key], v)
		e.ret = h.now()
	case 1:
		e.in = regIn{Op: "read"}
		e.call = h.now()
		v, err := h.b.Read(ctx, h.keys[key])
		e.ret = h.now()

		switch {
		case err == nil:
			e.out = regOut{Kind: "hit", Val: v.(int)}
		case errors.Is(err, cache.ErrNotFound):
			e.out = regOut{Kind: "miss"}
		default:
			if ev, _, ok := h.b.Expired(err); ok {
				e.out = regOut{Kind: "expired", Val: ev.(int)}
			} else {
				h.bad = append(h.bad, "Read failed with unexpected error: "+err.Error())
				return
			}
		}
	case 2:
		e.in = regIn{Op: "delete"}
		e.call = h.now()
		err := h.b.Delete(ctx, h.keys[key])
		e.ret = h.now()

		switch {
		case err == nil:
			e.out = regOut{Kind: "found"}
		case errors.Is(err, cache.ErrNotFound):
			e.out = regOut{Kind: "notfound"}
		default:
			h.bad = append(h.bad, "Delete failed with unexpected error: "+err.Error())
			return
		}
	}

	h.evs = append(h.evs, e)
}

func (h *c08h) batch(kind string, client int) {
	ctx := context.Background()
	call := h.now()

	var pseudo []string

	switch kind {
	case "expireall":
		h.b.ExpireAll(ctx)
		pseudo = []string{"expire"}
	case "deleteall":
		h.b.DeleteAll(ctx)
		pseudo = []string{"deleteall"}
	case "cleanup":
		h.b.Cleanup()
		pseudo = []string{"cleanup"}
	case "evict":
		h.b.Cleanup()
		pseudo = []string{"cleanup", "evict"} // a cycle = delete-expired job, then eviction: two batch operations
	case "walkfail":
		// a Walk whose callback gives up at the first entry: nothing is observed, but the cache must stay usable for
		// everybody (the other threads' operations and a probe in the shard the walk stopped in must complete)
		var at []byte

		_, _ = h.b.Walk(func(k []byte, v interface{}, _ time.Time) error {
			at = append([]byte(nil), k...)
			return errWalkStop
		})

		if at != nil {
			if err := h.b.Delete(ctx, missingKeyNear(at)); !errors.Is(err, cache.ErrNotFound) {
				h.bad = append(h.bad, fmt.Sprintf("Delete of a missing key after a Walk that stopped early returned %v", err))
			}
		}

		return
	case "walk":
		var seen []string

		type rep struct {
			key int
			val int
		}

		var reps []rep

		_, err := h.b.Walk(func(k []byte, v interface{}, at time.Time) error {
			seen = append(seen, string(k))

			for i, x := range h.keys {
				if string(x) == string(k) {
					reps = append(reps, rep{i, v.(int)})
					return nil
				}
			}

			h.bad = append(h.bad, fmt.Sprintf("Walk reports key %q that nobody stored", k))

			return nil
		})
		if err != nil {
			h.bad = append(h.bad, "Walk failed: "+err.Error())
		}

		ret := h.now()
		h.walks = append(h.walks, seen)

		for _, r := range reps {
			if r.key < 2 {
				h.evs = append(h.evs, c08Ev{key: r.key, client: client, in: regIn{Op: "walk-saw"}, out: regOut{Val: r.val}, call: call, ret: ret})
			}
		}

		return
	}

	ret := h.now()

	for k := 0; k < 2; k++ {
		for i, p := range pseudo {
			h.evs = append(h.evs, c08Ev{key: k, client: client + i, in: regIn{Op: p}, call: call, ret: ret})
		}
	}
}

func c08Run(c Cell, env *Env) CellResult {
	var cc c08Cell
	_ = json.Unmarshal([]byte(c.ID), &cc)

	if cc.Coll {
		return c09ConcAs("C08", c09Cell{Mode: "conc", Backend: cc.Backend, A: cc.A}, env)
	}

	res := CellResult{Exhaustive: true, Outcomes: map[string]int{}}
	keys := sameShardKeys()
	if cc.Spread {
		keys = spreadKeys()
	}

	cfg := cache.Config{Name: "c08", ExpirationJitter: -1, TimeToLive: 5 * time.Minute, EvictionStrategy: cache.EvictionStrategy(cc.Strategy)}
	if cc.Unl {
		cfg.TimeToLive = cache.UnlimitedTTL
	}

	if cc.Batch == "evict" {
		cfg.EvictionNeeded = func() bool { return true }
		cfg.EvictFraction = 1
	}

	init0 := regState{Present: true, Val: 0}
	if strings.Contains(cc.Batch, "cleanup") || cc.Batch == "evict" {
		init0.Exp, init0.Long = true, true
	}

	models := []porcupine.Model{regModel(init0), regModel(regState{})}

	progsB := c08Progs(cc.NB)
	progsC := [][]int{nil}

	if cc.C {
		progsC = append(progsC, c08Progs(1)...)
	}

	type prog struct{ b, c []int }

	var progs []prog

	for _, b := range progsB {
		for _, cth := range progsC {
			progs = append(progs, prog{b, cth})
		}
	}

	if env.Replay != nil {
		var idx int
		_ = json.Unmarshal(env.Replay.Extra, &idx)
		progs = progs[idx : idx+1]
	}

	seenSig := map[string]bool{}

	for pi, p := range progs {
		var h *c08h

		body := func() {
			vclock.Reset()
			vclock.AutoTick = true

			h = &c08h{b: newBackend(cc.Backend, cfg), keys: keys, nextV: 100}
			ctx := context.Background()

			if init0.Long {
				_ = h.b.Write(cache.WithTTL(ctx, -48*time.Hour, false), keys[0], 0)
			} else {
				_ = h.b.Write(ctx, keys[0], 0)
			}

			_ = h.b.Write(ctx, keys[2], 2)

			run := func(client int, ops []int) {
				if len(ops) == 0 {
					return
				}

				vsched.SpawnThread("client", func() {
					for _, o := range ops {
						h.do(client, o)
					}
				})
			}

			run(0, cc.A)
			run(1, p.b)
			run(2, p.c)

			if cc.Batch != "none" {
				// "x+y": two batch threads next to each other
				for i, bt := range strings.Split(cc.Batch, "+") {
					i, bt := i, bt
					vsched.SpawnThread("batch", func() { h.batch(bt, 3+2*i) })
				}
			}

			vsched.Join()

			// what is left at quiescence belongs to the history as well
			h.do(9, 2)
			h.do(9, 3)
		}

		check := func(r *vsched.Result) []Violation {
			var vs []Violation

			bad := func(kind, detail string) {
				ttl := ""
				if cc.Unl {
					ttl = " ttl=unlimited"
				}

				vs = append(vs, Violation{Signature: fmt.Sprintf("C08 %s batch=%s%s %s", cc.Backend, cc.Batch, ttl, kind), Detail: detail + fmt.Sprintf(" (eviction strategy %s)", strategyNames[cc.Strategy])})
			}

			if r.Deadlock || r.Panic != nil {
				bad("fatal", fmt.Sprintf("deadlock=%v panic=%v\n%s", r.Deadlock, r.Panic, r.PanicStack))
				return vs
			}

			for _, m := range h.bad {
				bad("unexpected", m)
			}

			for k := 0; k < 2; k++ {
				var ops []porcupine.Operation

				for _, e := range h.evs {
					if e.key == k {
						ops = append(ops, porcupine.Operation{ClientId: e.client, Input: e.in, Output: e.out, Call: e.call, Return: e.ret})
					}
				}

				if len(ops) > 0 && !porcupine.CheckOperations(models[k], ops) {
					var sb strings.Builder
					for _, o := range ops {
						fmt.Fprintf(&sb, "\n    client %d [%d,%d] %v -> %v", o.ClientId, o.Call, o.Return, o.Input, o.Output)
					}

					bad(c08Classify(ops), fmt.Sprintf("history of key %d is not linearizable (initial state %+v):%s", k, []regState{init0, {}}[k], sb.String()))
				}
			}

			// The untouched entry is visited exactly once by every walk.
			if cc.Batch == "walk" {
				for _, w := range h.walks {
					n := 0
					for _, k := range w {
						if k == string(keys[2]) {
							n++
						}
					}

					if n != 1 {
						bad("walk-untouched", fmt.Sprintf("the entry nobody touched was visited %d times by Walk", n))
					}
				}
			}

			return vs
		}

		if env.Replay != nil {
			r := vsched.Replay(env.Replay.Choices, body)
			res.Violations = check(r)

			fmt.Print(vsched.FormatTrace(r))

			return res
		}

		opt := vsched.Options{PreemptionBound: 2, EnvBound: 0, HBCache: true, Deadline: env.Deadline}
		if cc.Unb {
			opt = vsched.Options{PreemptionBound: -1, EnvBound: 0, HBCache: true, MaxExecs: 2000000, Deadline: env.Deadline}
		}

		st := vsched.Explore(opt, body, func(r *vsched.Result) bool {
			for _, v := range check(r) {
				if !seenSig[v.Signature] {
					seenSig[v.Signature] = true
					v.Choices = r.Choices()
					mustReproduce(v.Signature, v.Choices, body, check)
					mustReproduce(v.Signature, v.Choices, body, check)
					v.Extra, _ = json.Marshal(pi)
					v.Detail += fmt.Sprintf("\n  program: A=%v B=%v C=%v batch=%s", opNames(cc.A), opNames(p.b), opNames(p.c), cc.Batch)
					res.Violations = append(res.Violations, v)
				}
			}

			var oc []string
			for _, e := range h.evs {
				if e.in.Op == "read" || e.in.Op == "delete" {
					oc = append(oc, e.out.Kind)
				}
			}

			res.Outcomes[strings.Join(oc, ",")]++

			if res.Sample == nil && len(h.evs) > 2 {
				var evs []string
				for _, e := range h.evs {
					evs = append(evs, fmt.Sprintf("key%d client%d [%d,%d] %v -> %v", e.key, e.client, e.call, e.ret, e.in, e.out))
				}

				res.Sample = map[string]interface{}{"A": opNames(cc.A), "B": opNames(p.b), "batch": cc.Batch, "schedule": r.Choices(), "history": evs}
			}

			return true
		})

		res.Execs += st.Execs
		res.Transitions += st.Transitions
		res.States += st.HBStates

		if st.MaxDepth > res.MaxDepth {
			res.MaxDepth = st.MaxDepth
		}

		if !st.Exhaustive {
			res.Exhaustive, res.CapHit = false, st.CapHit
		}
	}

	return res
}

// c08Classify names the shape of a non-linearizable per-key history, so that a known finding covers one
// failure shape only.
func c08Classify(ops []porcupine.Operation) string {
	for _, r := range ops {
		in := r.Input.(regIn)
		out, _ := r.Output.(regOut)

		if !(in.Op == "read" && out.Kind == "miss") && !(in.Op == "delete" && out.Kind == "notfound") {
			continue
		}

		for _, w := range ops {
			if w.Input.(regIn).Op != "write" || w.Return >= r.Call {
				continue
			}

			// a write completed before the miss: is there any operation that may legitimately have
			// removed the entry after the write began?
			legit := false

			for _, d := range ops {
				din := d.Input.(regIn)
				dout, _ := d.Output.(regOut)

				if (din.Op == "deleteall" || din.Op == "evict" || (din.Op == "delete" && dout.Kind == "found")) && d.Return > w.Call {
					legit = true
				}
			}

			if !legit {
				return "completed-write-lost"
			}
		}
	}

	return "not-linearizable"
}

func opNames(p []int) []string {
	var n []string
	for _, o := range p {
		n = append(n, c08Ops[o])
	}

	return n
}

func init() {
	Register(&Prop{
		ID: "C08", Title: "Per-key linearizability of backends under concurrent use",
		Cells: c08Cells, Run: c08Run,
		Rule: "client programs: thread A = every sequence of 1-2 operations over {Write,Read,Delete} x {k0,k1}, thread B = every sequence of 1 (quick) / 1-2 (thorough) operations, optional third single-operation thread (thorough), " +
			"preemption bound 2 with happens-before caching; thorough additionally runs the quick programs with ALL interleavings; " +
			"plus one batch thread from {ExpireAll (MostExpired/LRU/LFU), DeleteAll, cleanup (delete-expired; MostExpired/LRU/LFU), eviction under MostExpired/LRU/LFU, Walk under MostExpired/LRU, Walk whose callback gives up; pairs of batch threads DeleteAll+ExpireAll, DeleteAll+cleanup, ExpireAll+cleanup next to one-operation clients}; every history ends with a read of both keys at quiescence; k0,k1 live in the same shard (and once more in the last and the first shard, DeleteAll / ExpireAll / cleanup); 3 backends; the ExpireAll and cleanup cells once more on a cache configured with UnlimitedTTL; the client programs once more on two keys with the SAME xxhash64 (slot model: a write may displace the colliding key, nothing else may cross keys); " +
			"all schedules within the bound; each per-key history (invocation/response stamped by a logical clock, batch calls as one pseudo-operation per key spanning the call, every Walk report as a read-like pseudo-operation) " +
			"is checked with porcupine against a nondeterministic register-with-expiry model; an entry nobody touches must be visited exactly once by every Walk",
		Assumptions: []string{
			"the virtual clock auto-ticks 1ns per reading so that successive time.Now() values differ as in real time",
			"exhaustive below 3(+1 batch) threads and 2 operations per thread; the statement's 16 goroutines with random mixes are outside this bound",
			"map iteration inside a shard follows the instrumented sorted cursor (a legal Go order)",
		},
	})
}
