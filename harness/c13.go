package harness

import (
	"bytes"
	"context"
	"encoding/json"
	"fmt"
	"io"
	"sort"
	"strings"
	"sync"
	"time"

	"github.com/bool64/cache"
	"github.com/cespare/xxhash/v2"

	ssync "verif/shim/sync"
	"verif/vclock"
	"verif/vsched"
)

// C13 — Dump followed by Restore reproduces the cache exactly (DESIGN §C13).

// GobS is the struct value of the C13/C14 alphabets.
type GobS struct {
	A int
	B string
}

// GobT is a second struct value; it is registered in a variadic call behind an already registered type.
type GobT struct {
	N int
	S string
}

var gobOnce sync.Once

// registerGob registers the value types the way an application with several packages does: one type on its own,
// then a variadic call that names it again next to a new one.
func registerGob() {
	gobOnce.Do(func() {
		cache.GobRegister(GobS{})
		cache.GobRegister(GobS{}, GobT{})
	})
}

// xfer is a uniform view of a cache for transfer checks; values travel as interface{}.
type xfer interface {
	Put(ctx context.Context, k []byte, v interface{})
	Snapshot() (map[string]xent, []string, int)
	Dump(w io.Writer) (int, error)
	Restore(r io.Reader) (int, error)
	ReadVal(k []byte) (interface{}, error)
	WDR() cache.WalkDumpRestorer
	ExpireAll()
	DeleteAll()
}

type xent struct {
	V interface{}
	E int64
}

type xSM struct{ c *cache.ShardedMap }
type xSY struct{ c *cache.SyncMap }
type xOF[V comparable] struct{ c *cache.ShardedMapOf[V] }

func snapshotIface(w interface {
	Walk(func(cache.Entry) error) (int, error)
}) (map[string]xent, []string, int) {
	m := map[string]xent{}

	var order []string

	n, _ := w.Walk(func(e cache.Entry) error {
		k := string(e.Key())
		if _, dup := m[k]; dup {
			order = append(order, "DUPLICATE:"+k)
		}

		m[k] = xent{V: e.Value(), E: e.ExpireAt().UnixNano()}
		order = append(order, k)

		return nil
	})

	return m, order, n
}

func (x xSM) Put(ctx context.Context, k []byte, v interface{}) { _ = x.c.Write(ctx, k, v) }
func (x xSM) Snapshot() (map[string]xent, []string, int)       { return snapshotIface(x.c) }
func (x xSM) Dump(w io.Writer) (int, error)                    { return x.c.Dump(w) }
func (x xSM) Restore(r io.Reader) (int, error)                 { return x.c.Restore(r) }
func (x xSM) ReadVal(k []byte) (interface{}, error)            { return x.c.Read(context.Background(), k) }
func (x xSM) ExpireAll()                                       { x.c.ExpireAll(context.Background()) }
func (x xSM) DeleteAll()                                       { x.c.DeleteAll(context.Background()) }
func (x xSM) WDR() cache.WalkDumpRestorer                      { return x.c }
func (x xSY) Put(ctx context.Context, k []byte, v interface{}) { _ = x.c.Write(ctx, k, v) }
func (x xSY) Snapshot() (map[string]xent, []string, int)       { return snapshotIface(x.c) }
func (x xSY) Dump(w io.Writer) (int, error)                    { return x.c.Dump(w) }
func (x xSY) Restore(r io.Reader) (int, error)                 { return x.c.Restore(r) }
func (x xSY) ReadVal(k []byte) (interface{}, error)            { return x.c.Read(context.Background(), k) }
func (x xSY) ExpireAll()                                       { x.c.ExpireAll(context.Background()) }
func (x xSY) DeleteAll()                                       { x.c.DeleteAll(context.Background()) }
func (x xSY) WDR() cache.WalkDumpRestorer                      { return x.c }

func (x xOF[V]) Put(ctx context.Context, k []byte, v interface{}) { _ = x.c.Write(ctx, k, v.(V)) }
func (x xOF[V]) Dump(w io.Writer) (int, error)                    { return x.c.Dump(w) }
func (x xOF[V]) Restore(r io.Reader) (int, error)                 { return x.c.Restore(r) }
func (x xOF[V]) ExpireAll()                                       { x.c.ExpireAll(context.Background()) }
func (x xOF[V]) DeleteAll()                                       { x.c.DeleteAll(context.Background()) }
func (x xOF[V]) WDR() cache.WalkDumpRestorer                      { return x.c.WalkDumpRestorer() }
func (x xOF[V]) ReadVal(k []byte) (interface{}, error) {
	v, err := x.c.Read(context.Background(), k)
	return v, err
}

func (x xOF[V]) Snapshot() (map[string]xent, []string, int) {
	m := map[string]xent{}

	var order []string

	n, _ := x.c.Walk(func(e cache.EntryOf[V]) error {
		k := string(e.Key())
		if _, dup := m[k]; dup {
			order = append(order, "DUPLICATE:"+k)
		}

		m[k] = xent{V: e.Value(), E: e.ExpireAt().UnixNano()}
		order = append(order, k)

		return nil
	})

	return m, order, n
}

func newXfer(kind string) (x xfer) {
	vsched.Construct(func() { x = newXferRaw(kind) })
	return x
}

// xferStrategy is the eviction strategy the transfer caches are configured with (set for the duration of a cell):
// LRU / LFU keep a serve counter next to every entry, which Walk and Dump have to step around.
var xferStrategy cache.EvictionStrategy

func newXferRaw(kind string) xfer {
	cfg := cache.Config{Name: "x", TimeToLive: cache.UnlimitedTTL, ExpirationJitter: -1, EvictionStrategy: xferStrategy}

	switch kind {
	case "SM":
		return xSM{cache.NewShardedMap(cfg.Use)}
	case "SY":
		return xSY{cache.NewSyncMap(cfg.Use)}
	case "OFint":
		return xOF[int]{cache.NewShardedMapOf[int](cfg.Use)}
	case "OFstring":
		return xOF[string]{cache.NewShardedMapOf[string](cfg.Use)}
	case "OFstruct":
		return xOF[GobS]{cache.NewShardedMapOf[GobS](cfg.Use)}
	}

	panic("unknown xfer kind " + kind)
}

func xferValues(kind string) []interface{} {
	switch kind {
	case "OFint":
		return []interface{}{0, 7}
	case "OFstring":
		return []interface{}{"", "x"}
	case "OFstruct":
		return []interface{}{GobS{}, GobS{1, "b"}}
	}

	return []interface{}{nil, 0, "", 7, "x", GobS{}, GobT{1, "b"}}
}

var c13Lens = []int{0, 1, 2, 9, 70}

// keyPool[len] = candidate keys of that length sorted by shard index.
type poolKey struct {
	key   []byte
	shard int
}

var (
	keyPool     map[int][]poolKey
	keyPoolOnce sync.Once
)

func buildKeyPool() {
	keyPool = map[int][]poolKey{}

	for _, l := range c13Lens {
		best := map[int][]byte{}

		n := 1
		if l > 0 {
			n = 4000
		}

		for i := 0; i < n; i++ {
			k := make([]byte, l)
			for j := 0; j < l; j++ {
				k[j] = byte('A' + (i>>(uint(j%3)*4)+j*7)%26)
			}

			if l > 0 {
				k[0] = byte(i)
				if l > 1 {
					k[1] = byte(i >> 8)
				}
			}

			sh := int(xxhash.Sum64(k) % cache.VerifShards)
			if _, ok := best[sh]; !ok {
				best[sh] = k
			}
		}

		var list []poolKey
		for sh, k := range best {
			list = append(list, poolKey{k, sh})
		}

		sort.Slice(list, func(i, j int) bool { return list[i].shard < list[j].shard })
		keyPool[l] = list
	}
}

// keysForLens picks one key per requested length with strictly increasing shard index, so that a
// ShardedMap dumps them in exactly this order.
func keysForLens(lens []int) ([][]byte, bool) {
	keyPoolOnce.Do(buildKeyPool)

	prev := -1

	var keys [][]byte

	for _, l := range lens {
		found := false

		for _, pk := range keyPool[l] {
			if pk.shard > prev {
				keys = append(keys, pk.key)
				prev = pk.shard
				found = true

				break
			}
		}

		if !found {
			return nil, false
		}
	}

	return keys, true
}

type c13Cell struct {
	Src     string `json:"src"`
	Dst     string `json:"dst"`
	Lens    []int  `json:"lens"` // key lengths by dump position
	Hops    int    `json:"hops"`
	Strat   int    `json:"strat,omitempty"`   // eviction strategy of all caches involved (0 = default, most expired)
	Expired bool   `json:"expired,omitempty"` // the source is expired with ExpireAll before it is dumped
	Reused  bool   `json:"reused,omitempty"`  // the target held other entries before and was emptied with DeleteAll
}

func (c c13Cell) id() string { js, _ := json.Marshal(c); return string(js) }

var c13Pairs = [][2]string{{"SM", "SM"}, {"SM", "SY"}, {"SY", "SM"}, {"SY", "SY"}, {"OFint", "OFint"}, {"OFstring", "OFstring"}, {"OFstruct", "OFstruct"}}

func lenArrangements(maxN int) [][]int {
	res := [][]int{{}}

	var rec func(cur []int, used map[int]bool)
	rec = func(cur []int, used map[int]bool) {
		if len(cur) > 0 {
			res = append(res, append([]int{}, cur...))
		}

		if len(cur) == maxN {
			return
		}

		for _, l := range c13Lens {
			if used[l] {
				continue
			}

			used[l] = true
			rec(append(cur, l), used)
			used[l] = false
		}
	}
	rec(nil, map[int]bool{})

	return res
}

func c13Cells(tier string) []Cell {
	maxN := 3
	if tier == "thorough" {
		maxN = 4
	}

	var cells []Cell

	for _, p := range c13Pairs {
		for _, lens := range lenArrangements(maxN) {
			if p[0] == "SY" && !sort.IntsAreSorted(lens) {
				// SyncMap sources: the stream order is produced by the Range permutation (all n! of them are
				// enumerated inside the cell), so one arrangement per set of key lengths is enough
				continue
			}

			cells = append(cells, Cell{ID: c13Cell{Src: p[0], Dst: p[1], Lens: lens, Hops: 1}.id()})
		}
		// relays through three instances and one large cache
		cells = append(cells, Cell{ID: c13Cell{Src: p[0], Dst: p[1], Lens: []int{9, 0, 70}, Hops: 3}.id()})
		cells = append(cells, Cell{ID: c13Cell{Src: p[0], Dst: p[1], Lens: []int{-300}, Hops: 2}.id()})
	}

	// a source that was expired by hand before the dump: the entries travel with the expiry ExpireAll gave them
	for _, p := range c13Pairs {
		for _, lens := range lenArrangements(2) {
			if p[0] == "SY" && !sort.IntsAreSorted(lens) {
				continue
			}

			cells = append(cells, Cell{ID: c13Cell{Src: p[0], Dst: p[1], Lens: lens, Hops: 1, Expired: true}.id()})
		}

		cells = append(cells, Cell{ID: c13Cell{Src: p[0], Dst: p[1], Lens: []int{9, 0, 70}, Hops: 3, Expired: true}.id()})
	}

	// caches configured with LRU / LFU eviction (appended: the indices of the cells above stay what they were)
	for _, p := range c13Pairs {
		for strat := 1; strat <= 2; strat++ {
			for _, lens := range lenArrangements(2) {
				if p[0] == "SY" && !sort.IntsAreSorted(lens) {
					continue
				}

				cells = append(cells, Cell{ID: c13Cell{Src: p[0], Dst: p[1], Lens: lens, Hops: 1, Strat: strat}.id()})
			}

			cells = append(cells, Cell{ID: c13Cell{Src: p[0], Dst: p[1], Lens: []int{9, 0, 70}, Hops: 3, Strat: strat}.id()})
		}
	}

	// a target that served before: it held other entries and was emptied with DeleteAll
	for _, p := range c13Pairs {
		for _, lens := range lenArrangements(2) {
			if p[0] == "SY" && !sort.IntsAreSorted(lens) {
				continue
			}

			cells = append(cells, Cell{ID: c13Cell{Src: p[0], Dst: p[1], Lens: lens, Hops: 1, Reused: true}.id()})
		}

		cells = append(cells, Cell{ID: c13Cell{Src: p[0], Dst: p[1], Lens: []int{9, 0, 70}, Hops: 3, Reused: true}.id()})
	}

	return cells
}

type c13Case struct {
	Vals []int `json:"vals"` // per position: value index*2 + (1 if expiry set)
	Perm int   `json:"perm"` // SyncMap range permutation of the source
}

func describeEntries(keys [][]byte, vals []interface{}, exp []bool) string {
	var parts []string
	for i := range keys {
		e := "never"
		if exp[i] {
			e = "set"
		}

		parts = append(parts, fmt.Sprintf("{key len %d, value %#v, expiry %s}", len(keys[i]), vals[i], e))
	}

	return strings.Join(parts, " ")
}

func compareSnap(what string, want, got map[string]xent) string {
	for k, w := range want {
		g, ok := got[k]
		if !ok {
			return fmt.Sprintf("%s: key (len %d) %q missing", what, len(k), k)
		}

		if g.V != w.V {
			return fmt.Sprintf("%s: key (len %d) %q has value %#v, want %#v", what, len(k), k, g.V, w.V)
		}

		if g.E != w.E {
			return fmt.Sprintf("%s: key (len %d) %q has expiry %d, want %d", what, len(k), k, g.E, w.E)
		}
	}

	for k := range got {
		if _, ok := want[k]; !ok {
			return fmt.Sprintf("%s: unexpected key (len %d) %q", what, len(k), k)
		}
	}

	return ""
}

// c13One transfers one entry sequence and returns a violation kind/detail.
func c13One(cc c13Cell, keys [][]byte, vals []interface{}, exp []bool, perm int) (string, string, int) {
	vclock.Reset()

	src := newXfer(cc.Src)
	ctx := context.Background()
	ops := 0

	// Entries are written through ONE scratch buffer that is overwritten after every call (callers do reuse
	// key buffers); what must arrive at the target is what was WRITTEN, not what the source's Walk reports.
	want := map[string]xent{}
	scratch := make([]byte, 0, 128)

	for i, k := range keys {
		wctx := ctx
		e := int64(0)

		if exp[i] {
			ttl := time.Duration(i+1) * time.Hour
			wctx = cache.WithTTL(ctx, ttl, false)
			e = vclock.NowQuiet().Add(ttl).UnixNano()
		}

		scratch = append(scratch[:0], k...)
		src.Put(wctx, scratch, vals[i])

		for j := range scratch[:cap(scratch)] {
			scratch[:cap(scratch)][j] = 0xEE
		}

		want[string(k)] = xent{V: vals[i], E: e}
		ops++
	}

	have, order, n0 := src.Snapshot()
	if n0 != len(keys) || len(have) != len(keys) {
		return "setup", fmt.Sprintf("source holds %d entries (walk count %d), wrote %d", len(have), n0, len(keys)), ops
	}

	if msg := compareSnap("source cache (Walk) vs entries written", want, have); msg != "" {
		return "source-content", msg, ops
	}

	if cc.Src == "SM" || strings.HasPrefix(cc.Src, "OF") {
		for i, k := range keys {
			if order[i] != string(k) {
				return "", "order-not-realised", ops
			}
		}
	}

	if cc.Expired {
		at := vclock.NowQuiet().UnixNano()

		src.ExpireAll()
		ops++

		for k, w := range want {
			w.E = at
			want[k] = w
		}

		have, _, _ = src.Snapshot()
		if msg := compareSnap("source cache (Walk) after ExpireAll vs entries written", want, have); msg != "" {
			return "source-content", msg, ops
		}
	}

	cur := src

	for hop := 0; hop < cc.Hops; hop++ {
		var buf bytes.Buffer

		ssync.RangePerm = perm
		n, err := cur.Dump(&buf)
		ssync.RangePerm = 0
		ops++

		if err != nil {
			return "dump-error", fmt.Sprintf("hop %d: Dump failed: %v", hop, err), ops
		}

		if n != len(keys) {
			return "dump-count", fmt.Sprintf("hop %d: Dump reported %d entries, cache holds %d", hop, n, len(keys)), ops
		}

		kind := cc.Dst
		if hop%2 == 1 {
			kind = cc.Src
		}

		dst := newXfer(kind)

		if cc.Reused {
			for i, v := range xferValues(kind)[:2] {
				dst.Put(ctx, []byte(fmt.Sprintf("earlier-%d", i)), v)
			}

			dst.DeleteAll()
			ops += 3
		}

		var pv interface{}

		func() {
			defer func() { pv = recover() }()

			n, err = dst.Restore(bytes.NewReader(buf.Bytes()))
		}()
		ops++

		if pv != nil {
			return "restore-panic", fmt.Sprintf("hop %d: Restore panicked: %v", hop, pv), ops
		}

		if err != nil {
			return "restore-error", fmt.Sprintf("hop %d: Restore failed: %v", hop, err), ops
		}

		if n != len(keys) {
			return "restore-count", fmt.Sprintf("hop %d: Restore reported %d entries, dump holds %d", hop, n, len(keys)), ops
		}

		got, gorder, gn := dst.Snapshot()
		for _, o := range gorder {
			if strings.HasPrefix(o, "DUPLICATE:") {
				return "walk-duplicate", fmt.Sprintf("hop %d: Walk of the restored cache visits key %q twice", hop, o[10:]), ops
			}
		}

		if gn != len(keys) {
			return "walk-count", fmt.Sprintf("hop %d: restored cache walks %d entries, want %d", hop, gn, len(keys)), ops
		}

		if msg := compareSnap(fmt.Sprintf("hop %d (%s->%s) restored cache", hop, cc.Src, kind), want, got); msg != "" {
			return "content", msg, ops
		}

		for _, k := range keys {
			v, err := dst.ReadVal(k)
			w := want[string(k)]

			if w.E == 0 || w.E > vclock.NowQuiet().UnixNano() {
				if err != nil || v != w.V {
					return "read", fmt.Sprintf("hop %d: Read(%q) on the restored cache = (%#v, %v), want %#v", hop, k, v, err, w.V), ops
				}
			}
		}

		cur = dst
	}

	return "", "ok", ops
}

func c13Run(c Cell, env *Env) CellResult {
	registerGob()

	var cc c13Cell
	_ = json.Unmarshal([]byte(c.ID), &cc)

	xferStrategy = cache.EvictionStrategy(cc.Strat)
	defer func() { xferStrategy = 0 }()

	res := CellResult{Exhaustive: true, Outcomes: map[string]int{}}
	values := xferValues(cc.Src)

	// Large cache: many entries of mixed shape, one case.
	if len(cc.Lens) == 1 && cc.Lens[0] < 0 {
		n := -cc.Lens[0]

		var (
			keys [][]byte
			vals []interface{}
			exp  []bool
		)

		for i := 0; i < n; i++ {
			keys = append(keys, []byte(fmt.Sprintf("%0*d", 1+i%12, i)))
			vals = append(vals, values[i%len(values)])
			exp = append(exp, i%3 == 0)
		}
		// distinct keys are needed: zero-padded numbers of different widths may coincide
		seen := map[string]bool{}

		var (
			k2 [][]byte
			v2 []interface{}
			e2 []bool
		)

		for i, k := range keys {
			if !seen[string(k)] {
				seen[string(k)] = true
				k2, v2, e2 = append(k2, k), append(v2, vals[i]), append(e2, exp[i])
			}
		}

		kind, detail, ops := c13One(cc, k2, v2, e2, 0)
		res.Execs, res.States, res.Transitions = 1, 1, ops

		if kind != "" {
			res.Violations = append(res.Violations, Violation{Signature: fmt.Sprintf("C13 %s->%s %s", cc.Src, cc.Dst, kind), Detail: detail + fmt.Sprintf(" (%d entries)", len(k2))})
		}

		res.Outcomes["large/"+detail]++

		return res
	}

	keys, ok := keysForLens(cc.Lens)
	if !ok {
		res.Skipped = "no keys with increasing shard index for these lengths"
		res.Exhaustive = false

		return res
	}

	nshape := len(values) * 2
	total := 1

	for range cc.Lens {
		total *= nshape
	}

	perms := 1
	if cc.Src == "SY" {
		for i := 2; i <= len(cc.Lens); i++ {
			perms *= i
		}
	}

	runCase := func(cs c13Case) (string, string, int) {
		vals := make([]interface{}, len(keys))
		exp := make([]bool, len(keys))

		for i, s := range cs.Vals {
			vals[i] = values[s/2]
			exp[i] = s%2 == 1
		}

		kind, detail, ops := c13One(cc, keys, vals, exp, cs.Perm)
		if kind != "" {
			detail += "\n  entries in dump order: " + describeEntries(keys, vals, exp) + fmt.Sprintf(" (range permutation %d)", cs.Perm)
		}

		return kind, detail, ops
	}

	if env.Replay != nil {
		var cs c13Case
		_ = json.Unmarshal(env.Replay.Extra, &cs)

		kind, detail, _ := runCase(cs)
		if kind != "" {
			res.Violations = append(res.Violations, Violation{Signature: fmt.Sprintf("C13 %s->%s %s", cc.Src, cc.Dst, kind), Detail: detail})
		}

		return res
	}

	seen := map[string]bool{}

	for idx := 0; idx < total; idx++ {
		if idx%512 == 0 && time.Now().After(env.Deadline) {
			res.Exhaustive = false
			res.CapHit = "deadline"

			break
		}

		cs := c13Case{Vals: make([]int, len(keys))}
		x := idx

		for i := range cs.Vals {
			cs.Vals[i] = x % nshape
			x /= nshape
		}

		for p := 0; p < perms; p++ {
			cs.Perm = p
			kind, detail, ops := runCase(cs)
			res.Execs++
			res.States++
			res.Transitions += ops

			if kind != "" {
				sig := fmt.Sprintf("C13 %s->%s %s", cc.Src, cc.Dst, kind)
				if !seen[sig] {
					seen[sig] = true
					js, _ := json.Marshal(cs)
					res.Violations = append(res.Violations, Violation{Signature: sig, Detail: detail, Extra: js})
				}

				continue
			}

			res.Outcomes[fmt.Sprintf("%s->%s n=%d %s", cc.Src, cc.Dst, len(keys), detail)]++

			if res.Sample == nil && idx > total/2 {
				vals := make([]interface{}, len(keys))
				exp := make([]bool, len(keys))

				for i, s := range cs.Vals {
					vals[i], exp[i] = values[s/2], s%2 == 1
				}

				res.Sample = map[string]interface{}{"pair": cc.Src + "->" + cc.Dst, "entries_in_dump_order": describeEntries(keys, vals, exp), "hops": cc.Hops}
			}
		}
	}

	res.MaxDepth = len(keys) + 2*cc.Hops

	return res
}

func init() {
	Register(&Prop{
		ID: "C13", Title: "Dump followed by Restore reproduces the cache exactly",
		Cells: c13Cells, Run: c13Run,
		Rule: "all ordered sequences of <=3 (quick) / <=4 (thorough) entries with distinct key lengths {0,1,2,9,70} x value {nil,0,\"\",7,\"x\",S{},S{1,\"b\"}} (typed zero/populated for ShardedMapOf) x expiry {never,set}; " +
			"the dump order is forced: ShardedMap sources through keys with increasing shard index, SyncMap sources through every permutation of the shimmed Range; " +
			"pairings SM->SM, SM->SY, SY->SM, SY->SY, ShardedMapOf[int|string|struct] -> same; 3-hop relays and a 300-entry cache; caches with default / LRU / LFU eviction configuration; sources expired with ExpireAll before the dump; " +
			"oracle: both calls report n, Walk of the target equals Walk of the source as (key bytes, value, ExpireAt) sets, no key visited twice, Read agrees",
		Assumptions: []string{
			"gob-lossy value shapes (empty non-nil slices/maps, pointers to zero) are excluded on purpose: the statement is about gob-registered values that gob itself round-trips",
			"map iteration order inside one ShardedMap bucket is not owned; keys are placed in distinct shards so that it does not matter",
		},
	})
}
