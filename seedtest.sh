#!/bin/bash
# usage: ./seedtest.sh <seed dir under /verif/seeded> [check ids...]
# Confirms a seeded change in a scratch worktree (existing tests pass with it; the demonstration fails with
# it and passes without it), then applies it to /repo, runs the given checks, and reverts /repo.
# SEED_IN_WORKTREE=1: instead of touching /repo, the scratch worktree stands in for it (VERIF_REPO).
set -u
S="$1"; shift
DIR="/verif/seeded/$S"
export GOFLAGS=-mod=mod GOPROXY=off GOSUMDB=off GOTOOLCHAIN=local
WT="$(mktemp -d /tmp/seedwt.XXXXXX)"; rmdir "$WT"
git -C /repo worktree add -q --detach "$WT" HEAD || exit 2
trap 'git -C /repo worktree remove --force "$WT" >/dev/null 2>&1; git -C /repo checkout -- . ' EXIT
OUT="$DIR/confirm.log"; : > "$OUT"
RACE=""; grep -qi "race" "$DIR/RACEFLAG" 2>/dev/null && RACE="-race"
cp "$DIR/demo_test.go" "$WT/zz_seed_demo_test.go"
( cd "$WT" && go test $RACE -vet=off -count=1 -run "$(grep -ohE 'func (Test[A-Za-z0-9_]+)' zz_seed_demo_test.go | sed 's/func //' | paste -sd'|')" . ) >>"$OUT" 2>&1
echo "demo without change: exit $?" | tee -a "$OUT"
( cd "$WT" && git apply "$DIR/patch.diff" ) >>"$OUT" 2>&1 || { echo "patch does not apply" | tee -a "$OUT"; exit 2; }
( cd "$WT" && go build ./... ) >>"$OUT" 2>&1 || { echo "does not build" | tee -a "$OUT"; exit 2; }
( cd "$WT" && go test $RACE -vet=off -count=1 -run "$(grep -ohE 'func (Test[A-Za-z0-9_]+)' zz_seed_demo_test.go | sed 's/func //' | paste -sd'|')" . ) >>"$OUT" 2>&1
echo "demo with change: exit $?" | tee -a "$OUT"
rm "$WT/zz_seed_demo_test.go"
# a few sleep-based tests of the existing suite are flaky under machine load: up to 3 attempts
rc=1; for attempt in 1 2 3; do ( cd "$WT" && go test -vet=off -count=1 ./... ) >>"$OUT" 2>&1; rc=$?; [ $rc -eq 0 ] && break; done
echo "existing tests with change: exit $rc (attempt $attempt)" | tee -a "$OUT"
if [ "${SEED_IN_WORKTREE:-0}" = 1 ]; then
  # the scratch worktree (with the change applied) stands in for /repo: usable while other checks run from /repo
  for c in "$@"; do
    VERIF_REPO="$WT" /verif/check "$c" quick > "$DIR/check-$c.log" 2>&1
    echo "check $c: exit $? $(grep -c VIOLATION "$DIR/check-$c.log") violation lines: $(grep -m2 'signature:' "$DIR/check-$c.log" | tr '\n' ' ')" | tee -a "$OUT"
  done
  exit 0
fi
git -C /repo apply "$DIR/patch.diff" || exit 2
for c in "$@"; do
  /verif/check "$c" quick > "$DIR/check-$c.log" 2>&1
  echo "check $c: exit $? $(grep -c VIOLATION "$DIR/check-$c.log") violation lines: $(grep -m2 'signature:' "$DIR/check-$c.log" | tr '\n' ' ')" | tee -a "$OUT"
done
git -C /repo checkout -- .
